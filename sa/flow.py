"""E1/E2 - syntax-directed abstract interpretation of one function.

One walker computes, flow-sensitively (strong updates on plain assignment, join =
union at merges, loops iterated to a fixpoint):

* dependence: variable -> set of source tokens
      P:<param>[.<field>]   value of a parameter (one level of field sensitivity)
      G:<module>.<name>     module-level variable
      RNG:numpy-global | RNG:other | CLOCK | HASHORDER | FS | ENV
      CALL:<callee>@<k>     identity of the k-th call site of <callee> in this function
      ITER:<loop-id>        the loop variable of a loop / PREV:<loop-id>:<var> value of var at loop head
* reaching definitions: variable -> set of definition ids (def-use chains, dead stores)
* must-events: set of event labels that happened on every path so far (dominance queries)

Dependence is OVER-approximated: "no path" verdicts (NI proven / ND refuted) are sound.
"""
from __future__ import annotations
import ast
from dataclasses import dataclass, field
from typing import Dict, FrozenSet, List, Optional, Set, Tuple

from .model import Program, FuncInfo, AnalysisError, GENERIC_NAMES, BUILTINS

Tok = FrozenSet[str]
E: Tok = frozenset()

# ---------------------------------------------------------------------------
# external API tables (frozen; printed in evidence as part of the trusted base)
MUTATING_METHODS = {
    'append', 'extend', 'insert', 'sort', 'reverse', 'update', 'pop', 'popitem', 'remove', 'clear',
    'setdefault', 'fill', 'resize', 'itemset', 'put', 'add', 'discard', 'partition', 'setflags',
    '__setitem__', '__delitem__',
}
# functions (by dotted external name suffix) that write into their first argument
MUTATING_FUNCS = {
    'numpy.fill_diagonal': 0, 'numpy.putmask': 0, 'numpy.put': 0, 'numpy.place': 0,
    'numpy.copyto': 0, 'numpy.random.shuffle': 0, 'random.shuffle': 0, 'numpy.put_along_axis': 0,
}
RNG_NUMPY_GLOBAL = {
    'rand', 'randn', 'randint', 'random', 'random_sample', 'ranf', 'sample', 'choice', 'shuffle',
    'permutation', 'normal', 'uniform', 'standard_normal', 'binomial', 'poisson', 'beta', 'gamma',
    'exponential', 'multivariate_normal', 'bytes', 'random_integers', 'chisquare', 'dirichlet',
    'laplace', 'logistic', 'lognormal', 'multinomial', 'geometric', 'gumbel', 'pareto', 'rayleigh',
    'standard_t', 'triangular', 'vonmises', 'wald', 'weibull', 'zipf', 'standard_cauchy',
    'standard_exponential', 'standard_gamma', 'negative_binomial', 'hypergeometric', 'f', 'power',
    'noncentral_chisquare', 'noncentral_f', 'logseries',
}
RNG_NUMPY_OBJECTS = {'default_rng', 'RandomState', 'Generator', 'SeedSequence', 'PCG64', 'MT19937'}
CLOCK_FUNCS = {'time.time', 'time.time_ns', 'time.perf_counter', 'time.monotonic', 'time.process_time',
               'datetime.datetime.now', 'datetime.datetime.utcnow', 'datetime.date.today',
               'datetime.now', 'datetime.utcnow'}
OTHER_RNG_PREFIX = ('random.', 'secrets.', 'uuid.')
OTHER_RNG_FUNCS = {'os.urandom', 'os.getrandom'}
ENV_FUNCS = {'os.getenv', 'os.getpid', 'os.environ.get', 'socket.gethostname', 'platform.node'}


@dataclass
class CallRec:
    node: ast.Call
    ordinal: int
    fn_text: str
    callees: List[str]              # resolved repo function qnames (may-set); [] = unresolved/external
    ext: Optional[str]              # dotted external name if statically known
    attr: Optional[str]             # method name for attribute calls
    recv: Tok                       # sources of the receiver (attribute calls)
    args: List[Tuple[object, Tok]]  # (position:int | keyword:str | '*' | '**', sources)
    ctl: Tok
    must: FrozenSet[str]
    result: Tok = E
    token: str = ''
    in_loops: Tuple[int, ...] = ()

    def arg(self, key) -> Optional[Tok]:
        for k, v in self.args:
            if k == key:
                return v
        return None

    def all_args(self) -> Tok:
        out = set()
        for _, v in self.args:
            out |= v
        return frozenset(out)


@dataclass
class DefRec:
    did: int
    var: str
    node: ast.AST           # the statement
    kind: str               # assign | aug | for | with | param | import | def | except | comp
    rhs: Optional[ast.expr]
    loops: Tuple[int, ...]
    used: bool = False
    flagged_last: Optional[int] = None   # loop id if "iteration-dependent, non-accumulating"


@dataclass
class FuncResult:
    qname: str
    ret: Tok = E
    ret_comps: Optional[List[Tok]] = None
    mut: Dict[str, Tok] = field(default_factory=dict)         # param -> sources written into it
    self_fields: Dict[str, Tok] = field(default_factory=dict)  # self.attr -> sources (methods)
    ret_classes: Optional[FrozenSet[str]] = None
    calls: List[CallRec] = field(default_factory=list)
    defs: Dict[int, DefRec] = field(default_factory=dict)
    returns: List[Tuple[ast.Return, Tok, FrozenSet[str]]] = field(default_factory=list)
    uses_after_loop: List[Tuple[str, int, ast.AST]] = field(default_factory=list)  # (var, loop id, use node)
    name_loads: Dict[int, Tok] = field(default_factory=dict)   # id(Name node) -> sources at that read
    load_defs: Dict[int, FrozenSet[int]] = field(default_factory=dict)  # id(Name node) -> reaching definition ids
    aug_prev: Dict[int, FrozenSet[int]] = field(default_factory=dict)   # def id of an AugAssign -> defs of the old value
    expr_src: Dict[int, Tok] = field(default_factory=dict)     # id(expr node) -> sources (for selected nodes)
    raises: List[Tuple[ast.Raise, Tok, FrozenSet[str]]] = field(default_factory=list)
    exit_env: Dict[str, Tok] = field(default_factory=dict)
    stores: List[Tuple[ast.AST, str, Tok, Tok]] = field(default_factory=list)  # (stmt, root var, value src, ctl)

    def summary_key(self):
        return (self.ret, tuple(self.ret_comps) if self.ret_comps is not None else None,
                tuple(sorted(self.mut.items())), tuple(sorted(self.self_fields.items())),
                self.ret_classes)


def only_params(t: Tok) -> Tok:
    """restrict to tokens meaningful across function boundaries"""
    return frozenset(x for x in t if not (x.startswith('CALL:') or x.startswith('ITER:') or x.startswith('CUT:')
                                          or x.startswith('PREV:') or x.startswith('LOCAL:')))


FIELD_SENSITIVE = False
# parsed (E0) but not summarised: plotting code and the name table; calls into them are 'unresolved'
SKIP_PREFIXES = ('vis.', 'io.petnames', 'test.')


def refine(t: Tok, attr: str) -> Tok:
    if not FIELD_SENSITIVE:
        return t
    out = set()
    for x in t:
        if x.startswith('P:') and '.' not in x:
            out.add(x + '.' + attr)
        else:
            out.add(x)
    return frozenset(out)


def depends_on_param(t: Tok, p: str) -> bool:
    pre = 'P:' + p
    return any(x == pre or x.startswith(pre + '.') for x in t)


def params_of(t: Tok) -> Set[str]:
    out = set()
    for x in t:
        if x.startswith('P:'):
            out.add(x[2:].split('.')[0])
    return out


class _State:
    __slots__ = ('env', 'defs', 'comps', 'types', 'must', 'dead', 'alias', 'pts', 'heap')

    def __init__(self):
        self.env: Dict[str, Tok] = {}
        self.defs: Dict[str, FrozenSet[int]] = {}
        self.comps: Dict[str, Tuple[Tok, ...]] = {}
        self.types: Dict[str, FrozenSet[str]] = {}
        self.must: FrozenSet[str] = frozenset()
        self.dead = False
        self.alias: Dict[str, FrozenSet[str]] = {}
        self.pts: Dict[str, FrozenSet[str]] = {}      # E3: variable -> abstract locations
        self.heap: Dict[Tuple[str, str], FrozenSet[str]] = {}   # E3: (location, field) -> locations

    def copy(self):
        s = _State()
        s.env = dict(self.env)
        s.defs = dict(self.defs)
        s.comps = dict(self.comps)
        s.types = dict(self.types)
        s.must = self.must
        s.dead = self.dead
        s.alias = dict(self.alias)
        s.pts = dict(self.pts)
        s.heap = dict(self.heap)
        return s

    def key(self):
        return (self.env, self.defs, self.comps, self.must, self.dead, self.alias, self.pts, self.heap)

    @staticmethod
    def join(a: '_State', b: '_State') -> '_State':
        if a.dead:
            return b.copy()
        if b.dead:
            return a.copy()
        s = _State()
        for k in set(a.env) | set(b.env):
            s.env[k] = a.env.get(k, E) | b.env.get(k, E)
        for k in set(a.defs) | set(b.defs):
            s.defs[k] = a.defs.get(k, frozenset()) | b.defs.get(k, frozenset())
        for k in set(a.comps) & set(b.comps):
            ca, cb = a.comps[k], b.comps[k]
            if len(ca) == len(cb):
                s.comps[k] = tuple(x | y for x, y in zip(ca, cb))
        for k in set(a.types) & set(b.types):
            s.types[k] = a.types[k] | b.types[k]
        s.must = a.must & b.must
        for k in set(a.alias) | set(b.alias):
            s.alias[k] = a.alias.get(k, frozenset()) | b.alias.get(k, frozenset())
        for k in set(a.pts) | set(b.pts):
            s.pts[k] = a.pts.get(k, frozenset()) | b.pts.get(k, frozenset())
        for k in set(a.heap) | set(b.heap):
            s.heap[k] = a.heap.get(k, frozenset()) | b.heap.get(k, frozenset())
        return s


def root_name(e: ast.expr) -> Optional[str]:
    while isinstance(e, (ast.Attribute, ast.Subscript, ast.Starred)):
        e = e.value
    if isinstance(e, ast.Name):
        return e.id
    return None


def attr_chain(e: ast.expr) -> Optional[List[str]]:
    chain = []
    while isinstance(e, ast.Attribute):
        chain.append(e.attr)
        e = e.value
    if isinstance(e, ast.Name):
        chain.append(e.id)
        return list(reversed(chain))
    return None


class DepEngine:
    """Interprocedural driver: per-function summaries to a fixpoint."""

    def __init__(self, prog: Program, extra_summaries: Optional[Dict[str, FuncResult]] = None):
        self.prog = prog
        self.summaries: Dict[str, FuncResult] = {}
        self.rounds = 0
        self._solve()

    def _solve(self):
        for q in self.prog.functions:
            self.summaries[q] = FuncResult(q)
        order = sorted(q for q in self.prog.functions if not q.startswith(SKIP_PREFIXES))
        dirty = set(order)
        callers: Dict[str, Set[str]] = {}
        rounds = 0
        self.evaluations = 0
        while dirty:
            rounds += 1
            if rounds > 40:
                raise AnalysisError('dependence summaries did not converge in 40 rounds')
            nxt: Set[str] = set()
            for q in order:
                if q not in dirty:
                    continue
                f = self.prog.functions[q]
                res = FuncWalker(self, f).run()
                self.evaluations += 1
                for c in res.calls:
                    for cq in c.callees:
                        callers.setdefault(cq, set()).add(q)
                # nested functions are read by their parent (closure values)
                if f.parent:
                    callers.setdefault(q, set()).add(f.parent)
                if res.summary_key() != self.summaries[q].summary_key():
                    nxt |= callers.get(q, set())
                self.summaries[q] = res
            dirty = nxt
        self.rounds = rounds

    def analyze(self, q: str, force: Optional[Dict[int, str]] = None, data_only: bool = False,
                cut: Optional[Set[str]] = None) -> FuncResult:
        """Re-analyse one function. force: id(if node) -> 'body'|'orelse' (branch-mode slicing);
        data_only: ignore control dependence (explicit flows only); cut: variables whose every assignment is
        replaced by the fresh source CUT:<name> ("holding <name> fixed")."""
        return FuncWalker(self, self.prog.func(q), force=force or {}, data_only=data_only, cut=cut).run()

    def result(self, q: str) -> FuncResult:
        return self.summaries[self.prog.func(q).qname]


class FuncWalker:
    def __init__(self, eng: DepEngine, f: FuncInfo, force: Optional[Dict[int, str]] = None,
                 data_only: bool = False, cut: Optional[Set[str]] = None):
        self.data_only = data_only
        self.cut = cut or set()
        self.eng = eng
        self.prog = eng.prog
        self.f = f
        self.mod = self.prog.module_of(f)
        self.force = force or {}
        self.res = FuncResult(f.qname)
        self.ctl: List[Tok] = []
        self.loop_stack: List[int] = []
        self.break_states: List[List[_State]] = []
        self.cont_states: List[List[_State]] = []
        self.try_states: List[List[_State]] = []
        self.call_ord: Dict[str, int] = {}
        self.callrecs: Dict[int, CallRec] = {}
        self.defrecs: Dict[int, DefRec] = {}   # keyed by (id(node), var) hashed
        self._defids: Dict[Tuple[int, str], int] = {}
        self.params = f.params
        self.nested = {fi.name: fi for fi in self.prog.functions.values() if fi.parent == f.qname}
        self.loop_exit_defs: Dict[int, Dict[str, FrozenSet[int]]] = {}
        self.ret_types: List[Optional[FrozenSet[str]]] = []
        self.ret_tuple_comps: List[Optional[Tuple[Tok, ...]]] = []
        self.closed_loops: Set[int] = set()
        self._mutated: Dict[str, Tok] = {}

    # ------------------------------------------------------------------ run
    def run(self) -> FuncResult:
        st = _State()
        f = self.f
        for p in self.params:
            st.env[p] = frozenset({'P:' + p})
            st.alias[p] = frozenset({p})
            st.defs[p] = frozenset({self._defid(f.node, p, 'param', None)})
        # annotated parameter types
        a = f.node.args
        for arg in a.posonlyargs + a.args + a.kwonlyargs:
            t = self._ann_classes(arg.annotation)
            if t:
                st.types[arg.arg] = t
        if f.cls and not f.is_static and f.pos_params:
            first = f.pos_params[0]
            if not f.is_classmethod:
                st.types[first] = frozenset({f.cls} | set(self.prog.subclasses(f.cls)))
        # enclosing function's variables are visible to nested defs as LOCAL-free tokens
        self.init_state = st
        self.h_init(st)
        out = self.block(f.node.body, st)
        if not out.dead:
            self.res.returns.append((None, self._ctl(), out.must))
            self.ret_types.append(None)
            self.ret_tuple_comps.append(None)
            self._note_exit(out)
        self._finish()
        return self.res

    def _note_exit(self, st: _State):
        for k, v in st.env.items():
            self.res.exit_env[k] = self.res.exit_env.get(k, E) | v

    def _finish(self):
        res = self.res
        ret = set()
        for node, toks, must in res.returns:
            ret |= toks
        res.ret = only_params(frozenset(ret))
        comps = [c for c in self.ret_tuple_comps]
        real = [c for (n, t, m), c in zip(res.returns, comps) if n is not None and n.value is not None]
        if real and all(c is not None for c in real) and len({len(c) for c in real}) == 1:
            n = len(real[0])
            extra = E
            for (node, toks, must), c in zip(res.returns, comps):
                if node is None or node.value is None:
                    continue
            res.ret_comps = [only_params(frozenset().union(*[c[i] for c in real])) for i in range(n)]
        # mutated params
        for p in self.params:
            if self._mutated.get(p):
                res.mut[p] = only_params(self._mutated[p])
        first = self.f.pos_params[0] if (self.f.cls and self.f.pos_params and not self.f.is_static) else None
        if first:
            for k, v in res.exit_env.items():
                if k.startswith(first + '.'):
                    res.self_fields[k[len(first) + 1:]] = only_params(v)
        rt = [t for (n, _, _), t in zip(res.returns, self.ret_types) if n is not None and n.value is not None]
        if rt and all(t for t in rt):
            res.ret_classes = frozenset().union(*rt)
        res.calls = sorted(self.callrecs.values(), key=lambda c: (c.node.lineno, c.node.col_offset))
        res.defs = {d.did: d for d in self.defrecs.values()}


    # ------------------------------------------------------------- E3 hooks (no-ops here, see heap.py)
    def h_init(self, st):
        pass

    def h_bind(self, target, rhs, st, node, kind):
        pass

    def h_call(self, e, cr, st, bound_recv):
        pass

    def h_aug(self, s, st):
        pass

    def h_return(self, s, st):
        pass

    def h_for(self, target, iter_expr, st):
        pass

    # ------------------------------------------------------------- utilities
    def _ctl(self) -> Tok:
        if self.data_only:
            return E
        out = set()
        for c in self.ctl:
            out |= c
        return frozenset(out)

    def _defid(self, node, var, kind, rhs) -> int:
        key = (id(node), var)
        if key not in self._defids:
            did = len(self._defids) + 1
            self._defids[key] = did
            self.defrecs[did] = DefRec(did, var, node, kind, rhs, tuple(self.loop_stack))
        return self._defids[key]

    def _ann_classes(self, ann) -> Optional[FrozenSet[str]]:
        if ann is None:
            return None
        names = []
        if isinstance(ann, ast.Constant) and isinstance(ann.value, str):
            try:
                ann = ast.parse(ann.value, mode='eval').body
            except SyntaxError:
                return None
        for n in ast.walk(ann):
            if isinstance(n, (ast.Name, ast.Attribute)):
                r = self.prog.resolve_expr_static(self.mod, n, self.f)
                if r and r.startswith('class:'):
                    names.append(r[6:])
                elif isinstance(n, ast.Name):
                    # TYPE_CHECKING imports of repo classes resolve through the import table too
                    pass
        if not names:
            return None
        out = set()
        for c in names:
            out.add(c)
            out |= set(self.prog.subclasses(c))
        return frozenset(out)

    # ------------------------------------------------------------ statements
    def block(self, body: List[ast.stmt], st: _State) -> _State:
        for s in body:
            if st.dead:
                break
            st = self.stmt(s, st)
            if self.try_states:
                self.try_states[-1].append(st.copy())
        return st

    def stmt(self, s: ast.stmt, st: _State) -> _State:
        m = getattr(self, 's_' + type(s).__name__, None)
        if m is None:
            raise AnalysisError(f'{self.f.qname}: unsupported statement {type(s).__name__} at line {s.lineno}')
        return m(s, st)

    def s_Pass(self, s, st):
        return st

    def s_Global(self, s, st):
        return st

    s_Nonlocal = s_Global

    def s_Import(self, s, st):
        return st

    s_ImportFrom = s_Import

    def s_Delete(self, s, st):
        for t in s.targets:
            if isinstance(t, ast.Name):
                st.env.pop(t.id, None)
            else:
                r = root_name(t)
                if r:
                    self._weak(st, r, self.ev(t, st, load=False), s)
        return st

    def s_Expr(self, s, st):
        self.ev(s.value, st)
        return st

    def s_Assert(self, s, st):
        self.ev(s.test, st)
        if s.msg is not None:
            self.ev(s.msg, st)
        return st

    def s_FunctionDef(self, s, st):
        # nested def: name bound to a closure value; free variables are read at call time
        st.env[s.name] = frozenset({'LOCAL:def:' + s.name})
        st.defs[s.name] = frozenset({self._defid(s, s.name, 'def', None)})
        return st

    def s_ClassDef(self, s, st):
        st.env[s.name] = E
        return st

    def s_Return(self, s, st):
        comps = None
        tys = None
        if s.value is not None:
            v = self.ev(s.value, st)
            self.h_return(s, st)
            if isinstance(s.value, ast.Tuple):
                comps = tuple(self.ev(e, st) | self._ctl() for e in s.value.elts)
            elif isinstance(s.value, ast.Name) and s.value.id in st.comps:
                comps = tuple(c | self._ctl() for c in st.comps[s.value.id])
            elif isinstance(s.value, ast.Call):
                cr = self.callrecs.get(id(s.value))
                cc = self._callee_comps(cr, s.value, st) if cr else None
                if cc:
                    comps = tuple(c | self._ctl() for c in cc)
            tys = self._type_of(s.value, st)
        else:
            v = E
        self.res.returns.append((s, v | self._ctl(), st.must))
        self.ret_types.append(tys)
        self.ret_tuple_comps.append(comps)
        self._note_exit(st)
        st = st.copy()
        st.dead = True
        return st

    def s_Raise(self, s, st):
        v = E
        if s.exc is not None:
            v = self.ev(s.exc, st)
        self.res.raises.append((s, v | self._ctl(), st.must))
        if self.try_states:
            self.try_states[-1].append(st.copy())
        st = st.copy()
        st.dead = True
        return st

    def s_Break(self, s, st):
        if self.break_states:
            b = st.copy()
            # which iteration's values survive the loop is decided by the condition under which we break: every variable that
            # varies with the iteration becomes control-dependent on it (for k, f in TABLE: if key == k: break -> f depends on key)
            if self.loop_stack:
                itok = 'ITER:%d' % self.loop_stack[-1]
                c = self._ctl()
                if c:
                    for k, v in list(b.env.items()):
                        if itok in v:
                            b.env[k] = v | c
            self.break_states[-1].append(b)
        st = st.copy()
        st.dead = True
        return st

    def s_Continue(self, s, st):
        if self.cont_states:
            self.cont_states[-1].append(st.copy())
        st = st.copy()
        st.dead = True
        return st

    def s_Assign(self, s, st):
        v = self.ev(s.value, st)
        for t in s.targets:
            self.bind(t, v, s.value, st, s)
            self.h_bind(t, s.value, st, s, 'assign')
        return st

    def s_AnnAssign(self, s, st):
        if s.value is not None:
            v = self.ev(s.value, st)
            self.bind(s.target, v, s.value, st, s)
            self.h_bind(s.target, s.value, st, s, 'assign')
        return st

    def s_AugAssign(self, s, st):
        v = self.ev(s.value, st)
        self.h_aug(s, st)
        t = s.target
        if isinstance(t, ast.Name):
            old = self.ev(ast.Name(id=t.id, ctx=ast.Load()), st, synthetic=True)
            self._mark_used(st, t.id)
            new = old | v | self._ctl()
            st.env[t.id] = new
            st.comps.pop(t.id, None)
            did = self._defid(s, t.id, 'aug', s.value)
            self.res.aug_prev[did] = self.res.aug_prev.get(did, frozenset()) | st.defs.get(t.id, frozenset())
            st.defs[t.id] = frozenset({did})
            # in-place on the object: numpy arrays are mutated (x += 1 writes through aliases)
            self._note_mut(st, t.id, v, s)
        else:
            r = root_name(t)
            idx = self.ev(t, st)
            if r:
                self._weak(st, r, v | idx, s)
        return st

    def _note_mut(self, st, var, v, node):
        """a write through `var` is a write into every parameter object it may alias, and is visible through every
        local that may hold the same object"""
        mine = st.alias.get(var, frozenset())
        for p in mine:
            if p.startswith('L:'):
                continue
            self._mutated[p] = self._mutated.get(p, E) | v | self._ctl()
        if mine:
            add = v | self._ctl()
            for other, al in st.alias.items():
                if other != var and other in st.env and (al & mine):
                    st.env[other] = st.env[other] | add
                    if other in st.comps:
                        st.comps[other] = tuple(c | add for c in st.comps[other])

    def _alias_of(self, e: Optional[ast.expr], st: _State) -> FrozenSet[str]:
        """parameters whose object (or a part / view of it) the value of e may be"""
        if e is None:
            return frozenset()
        if isinstance(e, ast.Name):
            return st.alias.get(e.id, frozenset())
        if isinstance(e, (ast.Attribute, ast.Subscript, ast.Starred)):
            return self._alias_of(e.value, st)
        if isinstance(e, ast.IfExp):
            return self._alias_of(e.body, st) | self._alias_of(e.orelse, st)
        if isinstance(e, (ast.Tuple, ast.List)):
            out = frozenset()
            for x in e.elts:
                out |= self._alias_of(x, st)
            return out
        if isinstance(e, ast.Call):
            fn = e.func
            # view-returning numpy calls and plain containers keep the aliasing
            if isinstance(fn, ast.Attribute) and fn.attr in ('asarray', 'asanyarray', 'atleast_1d', 'atleast_2d',
                                                            'squeeze', 'ravel', 'reshape', 'transpose', 'view',
                                                            'swapaxes', 'expand_dims', 'diagonal', 'items',
                                                            'values', 'get', 'get_vectors'):
                out = self._alias_of(fn.value, st)
                for a in e.args[:1]:
                    out |= self._alias_of(a, st)
                return out
            if isinstance(fn, ast.Name) and fn.id in ('enumerate', 'zip', 'iter', 'reversed', 'list', 'tuple') :
                out = frozenset()
                for a in e.args:
                    out |= self._alias_of(a, st)
                return out
        return frozenset()

    def _weak(self, st: _State, root: str, v: Tok, node):
        """weak update of the object held by `root` (subscript/attribute store, mutator call)"""
        v = v | self._ctl()
        self._note_mut(st, root, v, node)
        st.env[root] = st.env.get(root, E) | v
        if root in st.comps:
            st.comps[root] = tuple(c | v for c in st.comps[root])
        self._mark_used(st, root)
        self.res.stores.append((node, root, v, self._ctl()))

    def _mark_used(self, st, name):
        for d in st.defs.get(name, ()):
            self.defrecs[d].used = True

    def bind(self, target, v: Tok, rhs: Optional[ast.expr], st: _State, node, kind='assign'):
        ctl = self._ctl()
        if isinstance(target, ast.Name):
            name = target.id
            val = v | ctl
            if name in self.cut:
                val = frozenset({'CUT:' + name})
            # loop bookkeeping for ACC: iteration-dependent and not accumulating?
            did = self._defid(node, name, kind, rhs)
            d = self.defrecs[did]
            if self.loop_stack and kind in ('assign',):
                lid = self.loop_stack[-1]
                it = 'ITER:%d' % lid
                prev = 'PREV:%d:%s' % (lid, name)
                if it in val and prev not in val:
                    d.flagged_last = lid
                else:
                    d.flagged_last = None
            st.env[name] = val
            st.defs[name] = frozenset({did})
            for k in [k for k in st.env if k.startswith(name + '.')]:
                del st.env[k]
            st.comps.pop(name, None)
            st.types.pop(name, None)
            if rhs is not None:
                al = self._alias_of(rhs, st)
            elif '<iter>' in st.alias:
                al = st.alias['<iter>']
            else:
                al = frozenset()
            if not al and not isinstance(rhs, (ast.Constant,)) and '<iter>' not in st.alias:
                al = frozenset({'L:%d' % did})      # a fresh local object
            st.alias[name] = al
            if rhs is not None:
                if isinstance(rhs, (ast.Tuple, ast.List)) and not any(isinstance(e, ast.Starred) for e in rhs.elts):
                    st.comps[name] = tuple(self.ev(e, st, quiet=True) | ctl for e in rhs.elts)
                elif isinstance(rhs, ast.Call):
                    cr = self.callrecs.get(id(rhs))
                    cc = self._callee_comps(cr, rhs, st) if cr else None
                    if cc:
                        st.comps[name] = tuple(c | ctl for c in cc)
                elif isinstance(rhs, ast.Name) and rhs.id in st.comps:
                    st.comps[name] = st.comps[rhs.id]
                ty = self._type_of(rhs, st)
                if ty:
                    st.types[name] = ty
        elif isinstance(target, (ast.Tuple, ast.List)):
            comps = None
            if rhs is not None:
                if isinstance(rhs, (ast.Tuple, ast.List)) and len(rhs.elts) == len(target.elts) \
                        and not any(isinstance(e, ast.Starred) for e in rhs.elts):
                    comps = [self.ev(e, st, quiet=True) for e in rhs.elts]
                elif isinstance(rhs, ast.Call):
                    cr = self.callrecs.get(id(rhs))
                    cc = self._callee_comps(cr, rhs, st) if cr else None
                    if cc and len(cc) == len(target.elts):
                        comps = list(cc)
                elif isinstance(rhs, ast.Name) and rhs.id in st.comps and len(st.comps[rhs.id]) == len(target.elts):
                    comps = list(st.comps[rhs.id])
            for i, t in enumerate(target.elts):
                if isinstance(t, ast.Starred):
                    self.bind(t.value, v, None, st, node, kind)
                else:
                    sub_rhs = None
                    if rhs is not None and isinstance(rhs, (ast.Tuple, ast.List)) and len(rhs.elts) == len(target.elts):
                        sub_rhs = rhs.elts[i]
                    self.bind(t, comps[i] if comps else v, sub_rhs, st, node, kind)
        elif isinstance(target, ast.Attribute):
            r = root_name(target)
            if isinstance(target.value, ast.Name):
                key = target.value.id + '.' + target.attr
                st.env[key] = v | ctl
                self._note_mut(st, target.value.id, v, node)
                self.res.stores.append((node, target.value.id, v | ctl, ctl))
                # keep whole-object view consistent (weak)
                st.env[target.value.id] = st.env.get(target.value.id, E) | v | ctl
                self._mark_used(st, target.value.id)
            elif r:
                self.ev(target.value, st)
                self._weak(st, r, v, node)
        elif isinstance(target, ast.Subscript):
            r = root_name(target)
            idx = self.ev(target.slice, st)
            self.ev(target.value, st)
            if r:
                if isinstance(target.value, ast.Attribute) and isinstance(target.value.value, ast.Name):
                    key = target.value.value.id + '.' + target.value.attr
                    if key in st.env:
                        st.env[key] = st.env[key] | v | idx | ctl
                self._weak(st, r, v | idx, node)
        elif isinstance(target, ast.Starred):
            self.bind(target.value, v, None, st, node, kind)
        else:
            raise AnalysisError(f'{self.f.qname}: unsupported assignment target {type(target).__name__}')

    def s_If(self, s, st):
        c = self.ev(s.test, st)
        forced = self.force.get(id(s))
        mark = len(self.ctl)
        self.ctl.append(c)
        if forced == 'body':
            out = self.block(s.body, st.copy())
        elif forced == 'orelse':
            out = self.block(s.orelse, st.copy())
        else:
            a = self.block(s.body, st.copy())
            amb_a = self.ctl[mark + 1:]
            del self.ctl[mark + 1:]
            b = self.block(s.orelse, st.copy()) if s.orelse else st
            self.ctl[mark + 1:mark + 1] = amb_a
            out = _State.join(a, b)
            if a.dead and b.dead:
                out.dead = True
        ambient = self.ctl[mark + 1:]
        del self.ctl[mark:]
        # ambient control raised inside the arms (early exits) persists until the frame ends
        self.ctl.extend(ambient)
        # an early exit (return/continue/break) makes the rest of the block control-dependent on the
        # test; a guard that only raises does not (it aborts, it does not select a value)
        if forced is None and (_has_nonraise_exit(s.body) or _has_nonraise_exit(s.orelse)):
            self.ctl.append(c)
        return out

    def s_For(self, s, st):
        it = self.ev(s.iter, st)
        lid = s.lineno * 1000 + s.col_offset
        return self._loop(s, st, lid, it, target=s.target, iter_expr=s.iter)

    def s_While(self, s, st):
        lid = s.lineno * 1000 + s.col_offset
        return self._loop(s, st, lid, None, test=s.test)

    def _loop(self, s, st, lid, it, target=None, iter_expr=None, test=None):
        self.loop_stack.append(lid)
        self.break_states.append([])
        self.cont_states.append([])
        head = st.copy()
        ittok = frozenset({'ITER:%d' % lid})
        n = 0
        exit_states: List[_State] = []
        while True:
            n += 1
            if n > 30:
                raise AnalysisError(f'{self.f.qname}: loop at line {s.lineno} did not converge')
            cur = head.copy()
            # PREV tokens: value at loop head (entry or previous iteration)
            for k in list(cur.env):
                if '.' not in k:
                    cur.env[k] = cur.env[k] | frozenset({'PREV:%d:%s' % (lid, k)})
            fmark = len(self.ctl)
            if test is not None:
                c = self.ev(test, cur)
                self.ctl.append(c)
            else:
                self.ctl.append(it)
                tv = it | ittok
                comps_rhs = None
                cur.alias['<iter>'] = self._alias_of(iter_expr, cur)
                self.bind(target, tv, None, cur, s, kind='for')
                cur.alias.pop('<iter>', None)
                self._bind_iter_comps(target, iter_expr, cur, it | ittok)
                self.h_for(target, iter_expr, cur)
            self.break_states[-1] = []
            self.cont_states[-1] = []
            out = self.block(s.body, cur)
            for cs in self.cont_states[-1]:
                out = _State.join(out, cs)
            brk = list(self.break_states[-1])
            loop_amb = frozenset().union(*self.ctl[fmark:]) if len(self.ctl) > fmark else E
            del self.ctl[fmark:]
            # strip PREV tokens of this loop when leaving an iteration
            self._strip_prev(out, lid)
            for b in brk:
                self._strip_prev(b, lid)
            new_head = _State.join(head, out)
            exit_states = brk
            if new_head.key() == head.key():
                break
            head = new_head
        self.loop_stack.pop()
        self.break_states.pop()
        self.cont_states.pop()
        after = head.copy()
        if test is not None:
            self.ev(test, after)
        # else clause runs when no break happened
        if s.orelse:
            after = self.block(s.orelse, after)
        for b in exit_states:
            after = _State.join(after, b)
        # the number of iterations is an input of everything computed in the loop: values defined in the
        # loop already carry the iterable through ctl
        self.closed_loops.add(lid)
        if any(isinstance(n, ast.Return) for n in ast.walk(s)):
            self.ctl.append(loop_amb)
        return after

    def _strip_prev(self, st: _State, lid: int):
        pre = 'PREV:%d:' % lid
        for k, v in list(st.env.items()):
            if any(x.startswith(pre) for x in v):
                st.env[k] = frozenset(x for x in v if not x.startswith(pre))
        if st.comps:
            for k, cs in list(st.comps.items()):
                st.comps[k] = tuple(frozenset(x for x in c if not x.startswith(pre)) for c in cs)

    def _bind_iter_comps(self, target, iter_expr, st, base: Tok):
        """enumerate(x) / zip(a, b) give component-wise sources for tuple targets"""
        if not isinstance(target, (ast.Tuple, ast.List)) or not isinstance(iter_expr, ast.Call):
            return
        fn = iter_expr.func
        if isinstance(fn, ast.Name) and fn.id == 'enumerate' and len(target.elts) == 2 and iter_expr.args:
            ctl = self._ctl()
            src = self.ev(iter_expr.args[0], st, quiet=True)
            lidtok = frozenset(x for x in base if x.startswith('ITER:'))
            self._rebind_quiet(target.elts[0], lidtok | ctl | self._len_src(src), st)
            self._rebind_quiet(target.elts[1], src | lidtok | ctl, st, self._alias_of(iter_expr.args[0], st))
        elif isinstance(fn, ast.Name) and fn.id == 'zip' and len(iter_expr.args) == len(target.elts):
            ctl = self._ctl()
            lidtok = frozenset(x for x in base if x.startswith('ITER:'))
            for t, a in zip(target.elts, iter_expr.args):
                src = self.ev(a, st, quiet=True)
                self._rebind_quiet(t, src | lidtok | ctl, st, self._alias_of(a, st))

    def _len_src(self, src: Tok) -> Tok:
        return E

    def _rebind_quiet(self, t, v, st, alias=frozenset()):
        if isinstance(t, ast.Name):
            st.env[t.id] = v
            st.comps.pop(t.id, None)
            st.alias[t.id] = alias
        elif isinstance(t, (ast.Tuple, ast.List)):
            for e in t.elts:
                self._rebind_quiet(e, v, st, alias)

    def s_With(self, s, st):
        for item in s.items:
            v = self.ev(item.context_expr, st)
            if item.optional_vars is not None:
                self.bind(item.optional_vars, v, item.context_expr, st, s, kind='with')
                self.h_bind(item.optional_vars, item.context_expr, st, s, 'with')
        return self.block(s.body, st)

    def s_Try(self, s, st):
        self.try_states.append([st.copy()])
        body_out = self.block(s.body, st.copy())
        seen = self.try_states.pop()
        h_in = st.copy()
        for x in seen:
            h_in = _State.join(h_in, x)
        h_in.dead = False
        outs = []
        if s.orelse:
            body_out = self.block(s.orelse, body_out)
        outs.append(body_out)
        for h in s.handlers:
            hs = h_in.copy()
            if h.type is not None:
                self.ev(h.type, hs)
            if h.name:
                hs.env[h.name] = E
                hs.defs[h.name] = frozenset({self._defid(h, h.name, 'except', None)})
            outs.append(self.block(h.body, hs))
        out = outs[0]
        for o in outs[1:]:
            out = _State.join(out, o)
        if all(o.dead for o in outs):
            out.dead = True
        if s.finalbody:
            fin_in = out if not out.dead else h_in
            was_dead = out.dead
            out = self.block(s.finalbody, fin_in.copy())
            if was_dead:
                out.dead = True
        return out

    # ----------------------------------------------------------- expressions
    def ev(self, e: ast.expr, st: _State, load=True, quiet=False, synthetic=False) -> Tok:
        m = getattr(self, 'e_' + type(e).__name__, None)
        if m is None:
            raise AnalysisError(f'{self.f.qname}: unsupported expression {type(e).__name__} at line {getattr(e, "lineno", "?")}')
        self._quiet = quiet
        v = m(e, st)
        return v

    _quiet = False

    def e_Constant(self, e, st):
        return E

    def e_Name(self, e, st):
        n = e.id
        if n in st.env:
            self._mark_used(st, n)
            v = st.env[n]
            if v and 'LOCAL:def:' + n in v:
                # closure value: free variables read now
                fi = self.nested.get(n)
                return self._closure_src(fi, st) if fi else E
            # use-after-loop of a "last iteration only" definition
            if not self._quiet:
                for d in st.defs.get(n, ()):
                    dr = self.defrecs[d]
                    if dr.flagged_last is not None and dr.flagged_last in self.closed_loops \
                            and dr.flagged_last not in self.loop_stack:
                        self.res.uses_after_loop.append((n, d, e))
                self.res.name_loads[id(e)] = v
                self.res.load_defs[id(e)] = self.res.load_defs.get(id(e), frozenset()) | st.defs.get(n, frozenset())
            return v
        if n in self.params:
            return E
        # enclosing function variable (closure read inside a nested def analysed standalone)
        if self.f.parent:
            return frozenset({'P:^' + n}) if self._is_outer_local(n) else self._global_src(n)
        return self._global_src(n)

    def _is_outer_local(self, n: str) -> bool:
        cur = self.f.parent
        while cur:
            fi = self.prog.functions.get(cur)
            if fi is None:
                return False
            if n in fi.params:
                return True
            for node in ast.walk(fi.node):
                if isinstance(node, ast.Name) and node.id == n and isinstance(node.ctx, ast.Store):
                    return True
            cur = fi.parent
        return False

    def _global_src(self, n: str) -> Tok:
        if n in self.mod.defs or n in self.mod.imports or n in BUILTINS:
            return E
        if n in self.prog._fimp_cache(self.f):
            return E
        if n in self.mod.globals_assigned:
            return frozenset({'G:%s.%s' % (self.mod.name, n)})
        return E

    def _closure_src(self, fi: FuncInfo, st: _State) -> Tok:
        """sources of a nested function value = what its body can read from here"""
        summ = self.eng.summaries.get(fi.qname)
        out = set()
        if summ is None:
            return E
        allt = set(summ.ret)
        for mv in summ.mut.values():
            allt |= mv
        for t in allt:
            if t.startswith('P:^'):
                name = t[3:].split('.')[0]
                if name in st.env:
                    self._mark_used(st, name)
                    out |= st.env[name]
            elif not t.startswith('P:'):
                out.add(t)
        return frozenset(out)

    def e_Attribute(self, e, st):
        base = e.value
        if isinstance(base, ast.Name):
            key = base.id + '.' + e.attr
            if key in st.env:
                self._mark_used(st, base.id)
                return st.env[key]
            if base.id not in st.env and base.id not in self.params:
                # module attribute (np.pi, module constant)
                r = self.prog.resolve_expr_static(self.mod, e, self.f)
                if r is not None:
                    if r.startswith('module:') or r.startswith('func:') or r.startswith('class:'):
                        return E
                    if r.startswith('ext:'):
                        return E
        v = self.ev(base, st)
        return refine(v, e.attr)

    def e_Subscript(self, e, st):
        idx = self.ev(e.slice, st)
        if isinstance(e.value, ast.Name) and e.value.id in st.comps:
            k = _const_index(e.slice)
            comps = st.comps[e.value.id]
            if k is not None and -len(comps) <= k < len(comps):
                self._mark_used(st, e.value.id)
                return comps[k] | idx
        v = self.ev(e.value, st)
        return v | idx

    def e_Slice(self, e, st):
        out = E
        for x in (e.lower, e.upper, e.step):
            if x is not None:
                out |= self.ev(x, st)
        return out

    def e_Index(self, e, st):  # py<3.9 compat
        return self.ev(e.value, st)

    def _many(self, es, st) -> Tok:
        out = set()
        for x in es:
            if x is not None:
                out |= self.ev(x, st)
        return frozenset(out)

    def e_Tuple(self, e, st):
        return self._many(e.elts, st)

    e_List = e_Tuple

    def e_Set(self, e, st):
        return self._many(e.elts, st)

    def e_Dict(self, e, st):
        return self._many(list(e.keys) + list(e.values), st)

    def e_Starred(self, e, st):
        return self.ev(e.value, st)

    def e_BinOp(self, e, st):
        return self.ev(e.left, st) | self.ev(e.right, st)

    def e_BoolOp(self, e, st):
        return self._many(e.values, st)

    def e_UnaryOp(self, e, st):
        return self.ev(e.operand, st)

    def e_Compare(self, e, st):
        return self._many([e.left] + list(e.comparators), st)

    def e_IfExp(self, e, st):
        return self._many([e.test, e.body, e.orelse], st)

    def e_JoinedStr(self, e, st):
        return self._many(e.values, st)

    def e_FormattedValue(self, e, st):
        return self._many([e.value, e.format_spec], st)

    def e_NamedExpr(self, e, st):
        v = self.ev(e.value, st)
        self.bind(e.target, v, e.value, st, e)
        return v

    def e_Await(self, e, st):
        return self.ev(e.value, st)

    def e_Yield(self, e, st):
        v = self.ev(e.value, st) if e.value is not None else E
        self.res.returns.append((ast.Return(value=e.value, lineno=e.lineno, col_offset=e.col_offset), v | self._ctl(), st.must))
        self.ret_types.append(None)
        self.ret_tuple_comps.append(None)
        return E

    e_YieldFrom = e_Yield

    def e_Lambda(self, e, st):
        bound = {a.arg for a in e.args.args + e.args.kwonlyargs}
        out = set()
        sub = st.copy()
        for b in bound:
            sub.env[b] = E
        out |= self.ev(e.body, sub)
        return frozenset(out)

    def _comp(self, e, elts, st):
        sub = st.copy()
        out = set()
        saved_ctl = len(self.ctl)
        for g in e.generators:
            it = self.ev(g.iter, sub)
            out |= it
            self._rebind_quiet(g.target, it, sub)
            self._bind_iter_comps(g.target, g.iter, sub, it)
            for c in g.ifs:
                out |= self.ev(c, sub)
        for x in elts:
            out |= self.ev(x, sub)
        # uses inside the comprehension count for the outer variables
        return frozenset(out)

    def e_ListComp(self, e, st):
        return self._comp(e, [e.elt], st)

    e_GeneratorExp = e_ListComp

    def e_SetComp(self, e, st):
        return self._comp(e, [e.elt], st)

    def e_DictComp(self, e, st):
        return self._comp(e, [e.key, e.value], st)

    # ------------------------------------------------------------------ calls
    def _type_of(self, e: ast.expr, st: _State) -> Optional[FrozenSet[str]]:
        if isinstance(e, ast.Name):
            return st.types.get(e.id)
        if isinstance(e, ast.Call):
            cr = self.callrecs.get(id(e))
            if cr is not None:
                tys = set()
                for q in cr.callees:
                    fi = self.prog.functions[q]
                    if fi.name == '__init__' and fi.cls and self._is_ctor_call(e):
                        r = self.prog.resolve_expr_static(self.mod, e.func, self.f)
                        if r and r.startswith('class:'):
                            tys.add(r[6:])
                            continue
                    rc = self.eng.summaries[q].ret_classes
                    if not rc:
                        return None
                    tys |= rc
                if tys:
                    return frozenset(tys)
            # copy.deepcopy(x) / copy(x) keep the class
            if isinstance(e.func, ast.Name) and e.func.id in ('deepcopy', 'copy') and e.args:
                return self._type_of(e.args[0], st)
        return None

    def _is_ctor_call(self, e: ast.Call) -> bool:
        r = self.prog.resolve_expr_static(self.mod, e.func, self.f)
        return bool(r and r.startswith('class:'))

    def resolve_call(self, e: ast.Call, st: _State) -> Tuple[List[str], Optional[str], Optional[str], bool]:
        """-> (repo callees, external dotted name, attr name, bound_receiver)"""
        fn = e.func
        r = self.prog.resolve_expr_static(self.mod, fn, self.f) \
            if not (isinstance(fn, ast.Name) and fn.id in st.env) \
            and not (isinstance(fn, ast.Attribute) and root_name(fn) in st.env) else None
        if isinstance(fn, ast.Name) and fn.id in self.nested and fn.id in st.env:
            return [self.nested[fn.id].qname], None, None, False
        if r:
            if r.startswith('func:'):
                return [r[5:]], None, None, False
            if r.startswith('class:'):
                init = self.prog.lookup_method(r[6:], '__init__')
                return ([init] if init else []), None, None, True
            if r.startswith('ext:'):
                return [], r[4:], (fn.attr if isinstance(fn, ast.Attribute) else None), False
            return [], None, None, False
        if isinstance(fn, ast.Attribute):
            name = fn.attr
            # super().m()
            if isinstance(fn.value, ast.Call) and isinstance(fn.value.func, ast.Name) and fn.value.func.id == 'super' and self.f.cls:
                for c in self.prog.mro(self.f.cls)[1:]:
                    if name in self.prog.classes[c].methods:
                        return [self.prog.classes[c].methods[name]], None, name, True
                return [], None, name, True
            tys = self._type_of(fn.value, st) if isinstance(fn.value, (ast.Name, ast.Call)) else None
            if tys:
                out = []
                for c in sorted(tys):
                    mq = self.prog.lookup_method(c, name)
                    if mq and mq not in out:
                        out.append(mq)
                if out:
                    return out, None, name, True
                return [], None, name, True
            if name not in GENERIC_NAMES and name in self.prog.methods_by_name:
                return list(self.prog.methods_by_name[name]), None, name, True
            return [], None, name, True
        return [], None, None, False

    def e_Call(self, e: ast.Call, st: _State) -> Tok:
        quiet = self._quiet
        fn = e.func
        callees, ext, attr, bound_recv = self.resolve_call(e, st)
        recv = E
        fnsrc = E
        if isinstance(fn, ast.Attribute):
            if ext is None or root_name(fn) in st.env:
                recv = self.ev(fn.value, st)
        elif isinstance(fn, ast.Name):
            if fn.id in st.env and fn.id not in self.nested:
                fnsrc = self.ev(fn, st)   # callable held in a variable / parameter
            elif fn.id in self.nested:
                self._mark_used(st, fn.id)
        else:
            fnsrc = self.ev(fn, st)
        args: List[Tuple[object, Tok]] = []
        for i, a in enumerate(e.args):
            if isinstance(a, ast.Starred):
                args.append(('*', self.ev(a.value, st)))
            else:
                args.append((i, self.ev(a, st)))
        for k in e.keywords:
            if k.arg is None:
                args.append(('**', self.ev(k.value, st)))
            else:
                args.append((k.arg, self.ev(k.value, st)))
        self._quiet = quiet
        ctl = self._ctl()
        label = callees[0] if len(callees) == 1 else (ext or (('.' + attr) if attr else ast.unparse(fn)))
        if id(e) in self.callrecs:
            cr = self.callrecs[id(e)]
        else:
            k = self.call_ord.get(label, 0)
            self.call_ord[label] = k + 1
            cr = CallRec(e, k, ast.unparse(fn), callees, ext, attr, recv, args, ctl, st.must,
                         token='CALL:%s@%d' % (label, k), in_loops=tuple(self.loop_stack))
            self.callrecs[id(e)] = cr
        cr.callees, cr.ext, cr.attr = callees, ext, attr
        cr.recv = cr.recv | recv
        merged = []
        old = {k: v for k, v in cr.args}
        for k, v in args:
            merged.append((k, v | old.get(k, E)))
        cr.args = merged
        cr.ctl = cr.ctl | ctl
        cr.must = cr.must & st.must

        result = set(fnsrc)
        if callees:
            first_pass = True
            for q in callees:
                result |= self._apply_summary(q, e, cr, st, bound_recv, recv, args)
        else:
            result |= recv
            for _, v in args:
                result |= v
            result |= self._external_effects(e, ext, attr, recv, args, st)
        result.add(cr.token)
        self.h_call(e, cr, st, bound_recv)
        # must-events: the call happened
        ev_labels = set()
        for q in callees:
            ev_labels.add('call:' + q)
        if ext:
            ev_labels.add('call:' + ext)
        if attr:
            ev_labels.add('call:.' + attr)
        if isinstance(fn, ast.Name):
            ev_labels.add('call:' + fn.id)
        if len(callees) <= 1:
            st.must = st.must | frozenset(ev_labels)
        else:
            st.must = st.must | frozenset(x for x in ev_labels if not x.startswith('call:' + 'rsa'))
        out = frozenset(result)
        cr.result = cr.result | out
        return out

    def _bind_actuals(self, fi: FuncInfo, e: ast.Call, bound_recv: bool, recv: Tok,
                      args: List[Tuple[object, Tok]]) -> Tuple[Dict[str, Tok], Dict[str, ast.expr]]:
        """map callee parameter -> sources of the actual; unknown binding (*args) -> spread"""
        pos = list(fi.pos_params)
        bind: Dict[str, Tok] = {}
        exprs: Dict[str, ast.expr] = {}
        if bound_recv and fi.cls and not fi.is_static and pos:
            bind[pos[0]] = recv
            if isinstance(e.func, ast.Attribute):
                exprs[pos[0]] = e.func.value
            pos = pos[1:]
        star = E
        i = 0
        for (k, v), a in zip([x for x in args if isinstance(x[0], int) or x[0] == '*'], e.args):
            if k == '*':
                star |= v
                continue
            if i < len(pos):
                bind[pos[i]] = bind.get(pos[i], E) | v
                exprs[pos[i]] = a
            elif fi.vararg:
                bind[fi.vararg] = bind.get(fi.vararg, E) | v
            i += 1
        dstar = E
        allp = set(fi.pos_params) | set(fi.kwonly)
        for (k, v), kw in zip([x for x in args if isinstance(x[0], str) and x[0] != '*'], e.keywords):
            if k == '**':
                dstar |= v
            elif k in allp:
                bind[k] = bind.get(k, E) | v
                exprs[k] = kw.value
            elif fi.kwarg:
                bind[fi.kwarg] = bind.get(fi.kwarg, E) | v
        if star or dstar:
            for p in fi.params:
                if p not in bind or True:
                    bind[p] = bind.get(p, E) | star | dstar
        return bind, exprs

    def _subst(self, toks: Tok, bind: Dict[str, Tok], st: _State) -> Tok:
        out = set()
        for t in toks:
            if t.startswith('P:^'):
                # free variable of a nested function: read from the current environment
                name = t[3:].split('.')[0]
                if name in st.env:
                    self._mark_used(st, name)
                    out |= st.env[name]
                continue
            if t.startswith('P:'):
                body = t[2:]
                name, _, fld = body.partition('.')
                src = bind.get(name, E)
                out |= refine(src, fld) if fld else src
            else:
                out.add(t)
        return frozenset(out)

    def _apply_summary(self, q: str, e: ast.Call, cr: CallRec, st: _State, bound_recv: bool,
                       recv: Tok, args) -> Tok:
        fi = self.prog.functions[q]
        summ = self.eng.summaries[q]
        bind, exprs = self._bind_actuals(fi, e, bound_recv, recv, args)
        is_ctor = fi.name == '__init__' and self._is_ctor_call(e)
        if is_ctor:
            ret = set()
            for fld, toks in summ.self_fields.items():
                ret |= self._subst(toks, bind, st)
            ret |= self._subst(summ.mut.get(fi.pos_params[0], E) if fi.pos_params else E, bind, st)
            out = frozenset(ret)
        else:
            out = self._subst(summ.ret, bind, st)
        # mutation of actuals
        for p, toks in summ.mut.items():
            if is_ctor and fi.pos_params and p == fi.pos_params[0]:
                continue
            ex = exprs.get(p)
            if ex is None:
                continue
            r = root_name(ex)
            if r and r in st.env:
                sub = self._subst(toks, bind, st)
                # a write of values derived from the object itself adds no dependence (and no control dependence)
                if sub - st.env[r]:
                    self._weak(st, r, sub, e)
                else:
                    self._note_mut(st, r, E if self.data_only else frozenset(), e)
                    self.res.stores.append((e, r, sub, self._ctl()))
        return out

    def _callee_comps(self, cr: Optional[CallRec], e: ast.Call, st: _State) -> Optional[Tuple[Tok, ...]]:
        if cr is None or not cr.callees:
            return None
        allc = []
        for q in cr.callees:
            summ = self.eng.summaries[q]
            if summ.ret_comps is None:
                return None
            fi = self.prog.functions[q]
            bound_recv = isinstance(e.func, ast.Attribute) and fi.cls is not None and not fi.is_static \
                and not (self.prog.resolve_expr_static(self.mod, e.func, self.f) or '').startswith('func:')
            bind, _ = self._bind_actuals(fi, e, bound_recv, cr.recv, cr.args)
            allc.append([self._subst(c, bind, st) | frozenset({cr.token}) for c in summ.ret_comps])
        if len({len(c) for c in allc}) != 1:
            return None
        n = len(allc[0])
        return tuple(frozenset().union(*[c[i] for c in allc]) for i in range(n))

    def _external_effects(self, e: ast.Call, ext: Optional[str], attr: Optional[str], recv: Tok,
                          args, st: _State) -> Tok:
        out = set()
        fn = e.func
        if ext:
            canon = _canon_ext(ext)
            if canon.startswith('numpy.random.'):
                leaf = canon.split('.')[-1]
                if leaf in RNG_NUMPY_GLOBAL:
                    out.add('RNG:numpy-global')
                elif leaf in RNG_NUMPY_OBJECTS:
                    seeded = bool(e.args or any(k.arg == 'seed' for k in e.keywords))
                    out.add('RNG:seeded-object' if seeded else 'RNG:other')
                elif leaf not in ('seed', 'get_state', 'set_state'):
                    out.add('RNG:other')
            elif canon in CLOCK_FUNCS:
                out.add('CLOCK')
            elif canon.startswith(OTHER_RNG_PREFIX) or canon in OTHER_RNG_FUNCS:
                out.add('RNG:other')
            elif canon in ENV_FUNCS:
                out.add('ENV')
            if canon in MUTATING_FUNCS:
                k = MUTATING_FUNCS[canon]
                if k < len(e.args):
                    r = root_name(e.args[k])
                    if r and r in st.env:
                        v = E
                        for _, a in args:
                            v |= a
                        self._weak(st, r, v, e)
            # out= keyword writes into that array
            for kw in e.keywords:
                if kw.arg == 'out':
                    r = root_name(kw.value)
                    if r and r in st.env:
                        v = E
                        for _, a in args:
                            v |= a
                        self._weak(st, r, v, e)
        if isinstance(fn, ast.Attribute) and fn.attr in MUTATING_METHODS:
            r = root_name(fn.value)
            if r and r in st.env:
                v = E
                for _, a in args:
                    v |= a
                self._weak(st, r, v, e)
        if isinstance(fn, ast.Name) and fn.id in ('set', 'frozenset'):
            out.add('SETOBJ')
        return frozenset(out)


def _canon_ext(ext: str) -> str:
    parts = ext.split('.')
    if parts[0] in ('np', 'numpy'):
        parts[0] = 'numpy'
    return '.'.join(parts)


def _const_index(s: ast.expr) -> Optional[int]:
    if isinstance(s, ast.Constant) and isinstance(s.value, int) and not isinstance(s.value, bool):
        return s.value
    if isinstance(s, ast.UnaryOp) and isinstance(s.op, ast.USub) and isinstance(s.operand, ast.Constant) \
            and isinstance(s.operand.value, int):
        return -s.operand.value
    return None


def _always_exits(body: List[ast.stmt]) -> bool:
    return bool(body) and isinstance(body[-1], (ast.Return, ast.Raise, ast.Continue, ast.Break))


def _has_nonraise_exit(body: List[ast.stmt]) -> bool:
    """does this arm (not descending into loops for break/continue, nor nested defs) contain return/break/continue?"""
    for s in body or []:
        if isinstance(s, (ast.Return, ast.Break, ast.Continue)):
            return True
        if isinstance(s, ast.If):
            if _has_nonraise_exit(s.body) or _has_nonraise_exit(s.orelse):
                return True
        elif isinstance(s, (ast.For, ast.While)):
            for n in ast.walk(s):
                if isinstance(n, ast.Return):
                    return True
        elif isinstance(s, (ast.With, ast.Try)):
            for fld in ('body', 'orelse', 'finalbody'):
                if _has_nonraise_exit(getattr(s, fld, [])):
                    return True
            for h in getattr(s, 'handlers', []):
                if _has_nonraise_exit(h.body):
                    return True
    return False
