"""POLY - integer polynomials over shape symbols (normal form: monomial -> Fraction)."""
from __future__ import annotations
import ast
from fractions import Fraction
from typing import Callable, Dict, Optional, Tuple

Poly = Dict[Tuple[str, ...], Fraction]


def const(c) -> Poly:
    return {(): Fraction(c)} if c != 0 else {}


def sym(name: str) -> Poly:
    return {(name,): Fraction(1)}


def add(a: Poly, b: Poly, sign=1) -> Poly:
    out = dict(a)
    for m, c in b.items():
        out[m] = out.get(m, Fraction(0)) + sign * c
        if out[m] == 0:
            del out[m]
    return out


def mul(a: Poly, b: Poly) -> Poly:
    out: Poly = {}
    for m1, c1 in a.items():
        for m2, c2 in b.items():
            m = tuple(sorted(m1 + m2))
            out[m] = out.get(m, Fraction(0)) + c1 * c2
            if out[m] == 0:
                del out[m]
    return out


def show(p: Optional[Poly]) -> str:
    if p is None:
        return '?'
    if not p:
        return '0'
    parts = []
    for m, c in sorted(p.items(), key=lambda kv: (len(kv[0]), kv[0])):
        t = '*'.join(m) if m else ''
        if t and c == 1:
            parts.append(t)
        elif t and c == -1:
            parts.append('-' + t)
        elif t:
            parts.append(f'{c}*{t}')
        else:
            parts.append(str(c))
    return ' + '.join(parts).replace('+ -', '- ')


def from_expr(e: ast.expr, leaf: Callable[[ast.expr], Optional[Poly]]) -> Optional[Poly]:
    """polynomial of an integer expression; `leaf` maps atoms (X.shape[k], len(v), names) to polynomials"""
    p = leaf(e)
    if p is not None:
        return p
    if isinstance(e, ast.Constant) and isinstance(e.value, (int, float)) and not isinstance(e.value, bool):
        return const(Fraction(e.value).limit_denominator(1000))
    if isinstance(e, ast.UnaryOp) and isinstance(e.op, ast.USub):
        v = from_expr(e.operand, leaf)
        return None if v is None else mul(const(-1), v)
    if isinstance(e, ast.BinOp):
        l, r = from_expr(e.left, leaf), from_expr(e.right, leaf)
        if l is None or r is None:
            return None
        if isinstance(e.op, ast.Add):
            return add(l, r)
        if isinstance(e.op, ast.Sub):
            return add(l, r, -1)
        if isinstance(e.op, ast.Mult):
            return mul(l, r)
        if isinstance(e.op, (ast.Div, ast.FloorDiv)):
            if len(r) == 1 and () in r:
                return mul(l, const(1 / r[()]))
            return None
        if isinstance(e.op, ast.Pow) and isinstance(e.right, ast.Constant) and isinstance(e.right.value, int) and 0 <= e.right.value <= 4:
            out = const(1)
            for _ in range(e.right.value):
                out = mul(out, l)
            return out
        return None
    if isinstance(e, ast.Call) and isinstance(e.func, ast.Name) and e.func.id == 'int' and len(e.args) == 1:
        return from_expr(e.args[0], leaf)
    return None
