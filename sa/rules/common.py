"""Generic rule templates on top of E0/E2 (see DESIGN.md section 3)."""
from __future__ import annotations
import ast
from typing import Dict, Iterable, List, Optional, Sequence, Set, Tuple

from ..model import Program, FuncInfo, AnalysisError
from ..flow import DepEngine, FuncResult, CallRec, params_of, depends_on_param, Tok, E, root_name
from ..report import Obligations


def norm(node: ast.AST) -> str:
    """normalised text of a construct: ast.unparse (formatting-independent)"""
    return ast.unparse(node)


def where(prog: Program, f: FuncInfo, node) -> str:
    return prog.loc(f, node)


def calls_to(res: FuncResult, target: str) -> List[CallRec]:
    """call sites whose resolved callee is `target` (qualified name) or whose external/attr name matches"""
    out = []
    for c in res.calls:
        if target in c.callees or c.ext == target or (target.startswith('.') and c.attr == target[1:]) \
                or (not c.callees and c.fn_text == target):
            out.append(c)
    return out


def bound_args(prog: Program, callee_q: str, c: CallRec) -> Dict[str, Tuple[Optional[ast.expr], Tok]]:
    """bind the actuals of call record c against the signature of callee_q -> {param: (expr, sources)}"""
    fi = prog.func(callee_q)
    pos = list(fi.pos_params)
    if fi.cls and not fi.is_static and pos and (c.attr is not None or fi.name == '__init__' or fi.is_classmethod):
        pos = pos[1:]           # self / cls is implicit (a classmethod's cls always is, however the call is spelled)
    out: Dict[str, Tuple[Optional[ast.expr], Tok]] = {}
    i = 0
    for a, (k, v) in zip(c.node.args, [x for x in c.args if isinstance(x[0], int) or x[0] == '*']):
        if k == '*':
            continue
        if i < len(pos):
            out[pos[i]] = (a, v)
        i += 1
    kws = [x for x in c.args if isinstance(x[0], str) and x[0] != '*']
    for kw, (k, v) in zip(c.node.keywords, kws):
        if k != '**':
            out[k] = (kw.value, v)
        else:
            for key, (expr, src) in _expand_kwargs(prog, c, kw.value).items():
                out.setdefault(key, (expr, src))
    return out


def _expand_kwargs(prog: Program, c: CallRec, star: ast.expr) -> Dict[str, Tuple[ast.expr, Tok]]:
    """`f(**opts)` where `opts` is a local with ONE reaching definition `dict(k=v, ...)` / `{'k': v, ...}`: the keys and values"""
    dep = getattr(prog, '_dep_engine', None)
    if dep is None or not isinstance(star, ast.Name):
        OPEN_KWARGS.add(id(c.node))
        return {}
    owner = getattr(prog, '_call_owner', None)
    if owner is None:
        owner = {}
        for q, r in dep.summaries.items():
            for cr in r.calls:
                owner[id(cr.node)] = r
        prog._call_owner = owner
    res = owner.get(id(c.node))
    if res is None:
        OPEN_KWARGS.add(id(c.node))
        return {}
    ids = res.load_defs.get(id(star), ())
    if len(ids) != 1:
        OPEN_KWARGS.add(id(c.node))
        return {}
    d = res.defs[next(iter(ids))]
    if d.kind != 'assign' or d.rhs is None:
        OPEN_KWARGS.add(id(c.node))
        return {}
    items = {}
    v = d.rhs
    if isinstance(v, ast.Call) and isinstance(v.func, ast.Name) and v.func.id == 'dict' and not v.args:
        items = {k.arg: k.value for k in v.keywords if k.arg}
    elif isinstance(v, ast.Dict) and all(isinstance(k, ast.Constant) and isinstance(k.value, str) for k in v.keys):
        items = {k.value: val for k, val in zip(v.keys, v.values)}
    else:
        OPEN_KWARGS.add(id(c.node))
        return {}
    # later stores `opts['k'] = v` into the same local extend the dict; any other mutation (update, pop, del, a computed key)
    # makes the set of keys open: the caller then cannot say that a keyword is NOT passed
    fn_node = prog.functions[res.qname].node if getattr(res, 'qname', None) in prog.functions else None
    if fn_node is not None:
        for n in ast.walk(fn_node):
            if isinstance(n, (ast.Assign, ast.AugAssign)):
                tg = n.targets if isinstance(n, ast.Assign) else [n.target]
                for t in tg:
                    if isinstance(t, ast.Subscript) and isinstance(t.value, ast.Name) and t.value.id == star.id:
                        if isinstance(t.slice, ast.Constant) and isinstance(t.slice.value, str) and isinstance(n, ast.Assign):
                            items.setdefault(t.slice.value, n.value)
                        else:
                            OPEN_KWARGS.add(id(c.node))
            if isinstance(n, ast.Call) and isinstance(n.func, ast.Attribute) and isinstance(n.func.value, ast.Name) \
                    and n.func.value.id == star.id and n.func.attr in ('update', 'pop', 'setdefault', 'clear', 'popitem'):
                if n.func.attr == 'update' and not n.args and all(k.arg for k in n.keywords):
                    for k in n.keywords:
                        items.setdefault(k.arg, k.value)
                else:
                    OPEN_KWARGS.add(id(c.node))
    return {k: (e, expr_sources(res, e)) for k, e in items.items()}


OPEN_KWARGS: set = set()      # ids of call nodes with a `**mapping` whose keys could not be enumerated completely


def has_open_kwargs(prog: Program, c) -> bool:
    """the call passes `**mapping` and the keys of the mapping are not all known: absence of a keyword cannot be concluded"""
    node = c.node if hasattr(c, 'node') else c
    stars = [k for k in node.keywords if k.arg is None]
    if not stars:
        return False
    if id(node) in OPEN_KWARGS:
        return True
    return any(not isinstance(k.value, ast.Name) for k in stars)


def find_iterable_dispatch(f: FuncInfo) -> Optional[ast.If]:
    """the top-level `if isinstance(<first param>, Iterable|list|tuple|Sequence)` of a list dispatcher"""
    first = f.pos_params[0] if f.pos_params else None
    for s in f.node.body:
        if isinstance(s, ast.If):
            for n in ast.walk(s.test):
                if isinstance(n, ast.Call) and isinstance(n.func, ast.Name) and n.func.id == 'isinstance' \
                        and len(n.args) == 2 and isinstance(n.args[0], ast.Name) and n.args[0].id == first:
                    names = {x.id for x in ast.walk(n.args[1]) if isinstance(x, ast.Name)} | \
                            {x.attr for x in ast.walk(n.args[1]) if isinstance(x, ast.Attribute)}
                    if names & {'Iterable', 'list', 'tuple', 'Sequence', 'List'}:
                        return s
    return None


def fwd_list(ctx, obs: Obligations, q: str, split_params: Set[str], rule='FWD-list',
             exempt: Optional[Dict[str, str]] = None):
    """FWD: params(result of scalar arm) subset of params(result of list arm) for an Iterable dispatcher,
    and every recursive call in the list arm forwards every parameter (except the per-element ones)."""
    prog, dep = ctx.prog, ctx.dep
    f = prog.func(q)
    exempt = exempt or {}
    node = find_iterable_dispatch(f)
    if node is None:
        obs.unk(rule, q, 'iterable-dispatch', 'no top-level isinstance(<first param>, Iterable) test found')
        return
    r_list = dep.analyze(q, force={id(node): 'body'})
    r_scal = dep.analyze(q, force={id(node): 'orelse'})
    p_list, p_scal = params_of(r_list.ret), params_of(r_scal.ret)
    first = f.pos_params[0]
    for p in f.params:
        if p == first:
            continue
        if p in exempt:
            obs.exceptions.append(f'{rule} {q} {p}: {exempt[p]}')
            continue
        if p in p_scal:
            obs.check(p in p_list, rule, q, f'option {p} reaches the result of the list arm',
                      f'the result for a single input depends on parameter `{p}` but the result for a list '
                      f'input does not: the option is lost when datasets are supplied as a list',
                      f'scalar arm and list arm both depend on {p}', where(prog, f, node))
    # every recursive call forwards every parameter
    for c in r_list.calls:
        if q not in c.callees:
            continue
        b = bound_args(prog, q, c)
        for p in f.params:
            if p == first or p in exempt:
                continue
            if p not in p_scal:
                continue    # the scalar arm ignores it: nothing to forward
            if p in split_params:
                ok = p in b and depends_on_param(b[p][1], p) or p not in b
                # a split parameter may legitimately be omitted (None case) or indexed per element
                continue
            if p in b and depends_on_param(b[p][1], p):
                obs.ok(rule + '/rec', q, f'recursive call #{c.ordinal} forwards {p}', '', where(prog, f, c.node))
            else:
                obs.bad(rule + '/rec', q, f'recursive call #{c.ordinal} forwards {p}',
                        f'per-element call `{norm(c.node)[:120]}` does not pass parameter `{p}` on: for list '
                        f'input the option silently falls back to its default',
                        where(prog, f, c.node))


def par_chain(ctx, obs: Obligations, q: str, discriminant: str, rule='PAR', res: Optional[FuncResult] = None):
    """PAR: in an if/elif chain testing `discriminant` whose arms each make exactly one call to the same repo
    function, the arguments differ only in the parameter named `discriminant`."""
    prog = ctx.prog
    f = prog.func(q)
    r = res or ctx.dep.result(q)
    n_chains = 0
    for s in ast.walk(f.node):
        if not isinstance(s, ast.If) or _is_elif_tail(f.node, s):
            continue
        arms = []
        cur = s
        while True:
            arms.append((cur.test, cur.body))
            if len(cur.orelse) == 1 and isinstance(cur.orelse[0], ast.If):
                cur = cur.orelse[0]
            else:
                if cur.orelse:
                    arms.append((None, cur.orelse))
                break
        if len(arms) < 2:
            continue
        if not all(t is None or any(isinstance(n, ast.Name) and n.id == discriminant for n in ast.walk(t))
                   for t, _ in arms):
            continue
        calls = []
        for t, body in arms:
            inside = {id(n) for st in body for n in ast.walk(st)}
            cs = [c for c in r.calls if id(c.node) in inside and c.callees]
            calls.append(cs[0] if len(cs) == 1 else None)
        if any(c is None for c in calls) or len({tuple(c.callees) for c in calls}) != 1 or len(calls[0].callees) != 1:
            continue
        n_chains += 1
        callee = calls[0].callees[0]
        sig = prog.functions[callee]
        base = _arg_map(calls[0].node, sig)
        for k, c in enumerate(calls[1:], 1):
            m = _arg_map(c.node, sig)
            for key in sorted(set(base) | set(m)):
                if key == discriminant:
                    continue
                a, b = base.get(key), m.get(key)
                con = f'arms 0 and {k} of the `{discriminant}` chain calling {callee} agree on `{key}`'
                if a is not None and b is not None and ast.dump(a) == ast.dump(b):
                    obs.ok(rule, q, con, '', where(prog, f, c.node))
                else:
                    obs.bad(rule, q, con,
                            f'arm 0 passes {key}={ast.unparse(a) if a is not None else "<omitted>"}, arm {k} passes '
                            f'{key}={ast.unparse(b) if b is not None else "<omitted>"}: the arms must differ only in '
                            f'`{discriminant}`', where(prog, f, c.node))
    return n_chains


def _tests_only(test: ast.expr, name: str) -> bool:
    """the test mentions no local/param name other than `name` (type names, np, constants allowed)"""
    for n in ast.walk(test):
        if isinstance(n, ast.Name) and n.id not in (name, 'isinstance', 'np', 'numpy', 'Iterable', 'list', 'tuple',
                                                   'dict', 'int', 'float', 'str', 'len', 'None', 'hasattr',
                                                   'Sequence', 'type'):
            return False
    return True


def _has_kw_or_arg(c: ast.Call) -> bool:
    return bool(c.keywords) or len(c.args) >= 2


def _pick_main_call(cands: List[ast.Call]) -> ast.Call:
    # the call with most arguments (the inner calls like isinstance/np.array are smaller)
    return max(cands, key=lambda c: len(c.args) + len(c.keywords))


def _is_elif_tail(fn: ast.AST, s: ast.If) -> bool:
    for n in ast.walk(fn):
        if isinstance(n, ast.If) and len(n.orelse) == 1 and n.orelse[0] is s:
            return True
    return False


def _arg_map(c: ast.Call, sig: Optional[FuncInfo]) -> Dict[str, ast.expr]:
    out: Dict[str, ast.expr] = {}
    pos = list(sig.pos_params) if sig else []
    if sig and sig.cls and not sig.is_static and pos:
        pos = pos[1:]
    for i, a in enumerate(c.args):
        out[pos[i] if i < len(pos) else f'#{i}'] = a
    for kw in c.keywords:
        out[kw.arg or '**'] = kw.value
    return out


def acc_named(ctx, obs: Obligations, q: str, rule='ACC', res: Optional[FuncResult] = None) -> int:
    """ACC: in function q, a variable assigned in a loop from iteration-dependent values without reading its own
    previous value, and read after the loop, carries only the last iteration."""
    prog, dep = ctx.prog, ctx.dep
    f = prog.func(q)
    r = res or dep.result(q)
    loops = [n for n in ast.walk(f.node) if isinstance(n, (ast.For, ast.While))]
    bad: Dict[Tuple[str, int], ast.AST] = {}
    for var, did, use in r.uses_after_loop:
        d = r.defs[did]
        bad.setdefault((var, d.node.lineno), use)
    flagged = set()
    for (var, _), use in bad.items():
        if var in flagged:
            continue
        flagged.add(var)
        obs.bad(rule, q, f'loop result `{var}` accumulates every iteration',
                f'`{var}` is re-assigned in each loop iteration from iteration-dependent values without using its '
                f'previous value or being stored in an accumulator, and is read after the loop '
                f'(line {use.lineno}): only the last iteration contributes', where(prog, f, use))
    n = 0
    for lp in loops:
        # variables assigned in this loop and live after: report the discharged ones for the evidence
        assigned = {t.id for s in ast.walk(lp) for t in ([s.target] if isinstance(s, (ast.AugAssign, ast.AnnAssign))
                                                          else (s.targets if isinstance(s, ast.Assign) else []))
                    if isinstance(t, ast.Name)}
        n += 1
        obs.ok(rule, q, f'loop at ordinal {loops.index(lp)}: {len(assigned)} locals assigned, none escapes as last-iteration-only'
               if not flagged else f'loop at ordinal {loops.index(lp)} inspected', '', where(prog, f, lp))
    return n


def sig_conformance(ctx, obs: Obligations, prefixes: Sequence[str], rule='SIG', report_ok=False) -> int:
    """SIG: every call whose callee resolves to exactly one repo function binds against its signature."""
    prog, dep = ctx.prog, ctx.dep
    n = 0
    for q, r in dep.summaries.items():
        if not q.startswith(tuple(prefixes)):
            continue
        f = prog.functions[q]
        for c in r.calls:
            if len(c.callees) != 1:
                continue
            if any(k in ('*', '**') for k, _ in c.args):
                continue
            callee = prog.functions[c.callees[0]]
            n += 1
            err = _bind_error(prog, callee, c)
            if err:
                obs.bad(rule, q, f'call to {callee.qname} binds to its signature',
                        f'`{norm(c.node)[:140]}`: {err} - this call raises TypeError on every execution',
                        where(prog, f, c.node))
            elif report_ok:
                obs.ok(rule, q, f'call to {callee.qname} binds to its signature', '', where(prog, f, c.node))
    return n


def _bind_error(prog: Program, callee: FuncInfo, c: CallRec) -> Optional[str]:
    pos = list(callee.pos_params)
    implicit = 0
    if callee.cls and not callee.is_static and pos:
        # bound call (obj.m(...), Class(...)) supplies the first parameter; Class.m(obj, ...) does not
        r = None
        if isinstance(c.node.func, ast.Attribute):
            r = 'bound'
            base = c.node.func.value
            if isinstance(base, ast.Name):
                mod = prog.modules[prog.functions[c.callees[0]].module]
                # explicit Class.method(self, ...) form
                if any(ci.name == base.id for ci in prog.classes.values()):
                    r = 'unbound'
                    # Class.make(...) with make a classmethod: the class is supplied
                    if any(ast.unparse(d_) == 'classmethod' for d_ in callee.node.decorator_list):
                        r = 'bound'
            if r == 'bound':
                implicit = 1
        elif callee.name == '__init__':
            implicit = 1
    npos = len([k for k, _ in c.args if isinstance(k, int)])
    kw = [k for k, _ in c.args if isinstance(k, str)]
    avail = pos[implicit:]
    if npos > len(avail) and not callee.vararg:
        return f'{npos} positional arguments for {len(avail)} positional parameters'
    allnames = set(avail) | set(callee.kwonly)
    for k in kw:
        if k not in allnames and not callee.kwarg:
            return f'unexpected keyword argument `{k}` (parameters: {", ".join(avail + callee.kwonly)})'
        if k in avail[:npos]:
            return f'multiple values for parameter `{k}`'
    # required params
    a = callee.node.args
    nd = len(a.defaults)
    allpos = a.posonlyargs + a.args
    req = [x.arg for x in allpos[:len(allpos) - nd]][implicit:]
    for i, p in enumerate(req):
        if i >= npos and p not in kw:
            return f'missing required argument `{p}`'
    for p, d in zip(a.kwonlyargs, a.kw_defaults):
        if d is None and p.arg not in kw:
            return f'missing required keyword-only argument `{p.arg}`'
    return None


def dead_stores(ctx, obs: Obligations, q: str, rule='DEAD', as_note=False, only_vars: Optional[Set[str]] = None):
    """DEAD: a store whose right-hand side is a call / arithmetic and which no use can read."""
    prog, dep = ctx.prog, ctx.dep
    f = prog.func(q)
    r = dep.result(q)
    n = 0
    for d in r.defs.values():
        if d.kind not in ('assign', 'aug'):
            continue
        if d.var.startswith('_') or d.var == '_':
            continue
        if only_vars is not None and d.var not in only_vars:
            continue
        n += 1
        if d.used:
            continue
        rhs = d.rhs
        if rhs is None or not _computed(rhs):
            continue
        # tuple-unpacking of a call: unused components are conventional (a, _, _ = f())
        if isinstance(d.node, ast.Assign) and any(isinstance(t, (ast.Tuple, ast.List)) for t in d.node.targets):
            continue
        msg = (f'value `{norm(rhs)[:100]}` assigned to `{d.var}` is never read: the computation is discarded')
        if as_note:
            obs.note(rule, q, f'store to `{d.var}` is read', msg, where(prog, f, d.node))
        else:
            obs.bad(rule, q, f'store to `{d.var}` is read', msg, where(prog, f, d.node))
    return n


def _computed(e: ast.expr) -> bool:
    if isinstance(e, (ast.Constant, ast.Name, ast.Attribute)):
        return False
    if isinstance(e, (ast.List, ast.Tuple, ast.Dict, ast.Set)):
        return any(_computed(x) for x in ast.iter_child_nodes(e) if isinstance(x, ast.expr))
    if isinstance(e, ast.UnaryOp):
        return _computed(e.operand)
    return True


def single_def_expr(res: FuncResult, name_node: ast.Name) -> Optional[ast.expr]:
    return None


def source_order(root: ast.AST) -> Dict[int, int]:
    """id(node) -> position in a depth-first, left-to-right walk: the order in which the statements stand in the (possibly inlined)
    function.  Line numbers do not give that order: statements expanded by the inlining pre-pass share the line of their call."""
    out: Dict[int, int] = {}

    def go(n):
        out[id(n)] = len(out)
        for ch in ast.iter_child_nodes(n):
            go(ch)
    go(root)
    return out


def expr_sources(res: FuncResult, e: ast.expr) -> Tok:
    """sources of an expression = union of the recorded sources of the names it reads and calls it makes"""
    out = set()
    calls = {id(c.node): c for c in res.calls}
    for n in ast.walk(e):
        if isinstance(n, ast.Name) and id(n) in res.name_loads:
            out |= res.name_loads[id(n)]
        elif isinstance(n, ast.Call) and id(n) in calls:
            out |= calls[id(n)].result
    return frozenset(out)


def call_tokens(t: Tok, needle: str) -> Set[str]:
    return {x for x in t if x.startswith('CALL:') and needle in x}


def name_def_ids(res: FuncResult, e: ast.expr):
    if isinstance(e, ast.Name):
        return res.load_defs.get(id(e), frozenset())
    return frozenset()


COMPLEMENT_FUNCS = {'setdiff1d'}


def is_complement_of(e: ast.expr, universe_pred, removed_pred) -> Optional[bool]:
    """recognise the repo's complement idioms: np.setdiff1d(U, x), U[U != x], U[~np.isin(U, x)], np.delete(U, i).
    -> True (complement of something satisfying removed_pred within something satisfying universe_pred),
       False (a recognised idiom with the wrong slots), None (unrecognised)"""
    if isinstance(e, ast.Call):
        nm = e.func.attr if isinstance(e.func, ast.Attribute) else (e.func.id if isinstance(e.func, ast.Name) else '')
        if nm == 'setdiff1d' and len(e.args) >= 2:
            return bool(universe_pred(e.args[0]) and removed_pred(e.args[1]))
        if nm == 'delete' and len(e.args) >= 2:
            return bool(universe_pred(e.args[0]) and removed_pred(e.args[1]))
    if isinstance(e, ast.Subscript):
        m = e.slice
        if isinstance(m, ast.Compare) and len(m.ops) == 1 and isinstance(m.ops[0], ast.NotEq):
            return bool(universe_pred(e.value) and universe_pred(m.left) and removed_pred(m.comparators[0]))
        if isinstance(m, ast.UnaryOp) and isinstance(m.op, ast.Invert) and isinstance(m.operand, ast.Call):
            c = m.operand
            nm = c.func.attr if isinstance(c.func, ast.Attribute) else ''
            if nm in ('isin', 'in1d') and len(c.args) >= 2:
                return bool(universe_pred(e.value) and universe_pred(c.args[0]) and removed_pred(c.args[1]))
    return None


def fwd_same_name(ctx, obs: Obligations, q: str, names: Sequence[str], rule='FWD',
                  callees: Optional[Sequence[str]] = None, res: Optional[FuncResult] = None) -> int:
    """FWD (wrapper): at every call in q to a repo function that has a parameter named like one of `names`
    (and q has that parameter too), the parameter is passed on in that slot."""
    prog = ctx.prog
    f = prog.func(q)
    r = res or ctx.dep.result(q)
    n = 0
    for c in r.calls:
        if len(c.callees) != 1:
            continue
        g = c.callees[0]
        if callees is not None and g not in callees:
            continue
        gi = prog.functions[g]
        if any(k in ('*', '**') for k, _ in c.args):
            continue
        b = bound_args(prog, g, c)
        for p in names:
            if p not in f.params or p not in gi.params:
                continue
            n += 1
            con = f'{p} is passed on to {g}'
            if p in b and depends_on_param(b[p][1], p):
                obs.ok(rule, q, con, '', where(prog, f, c.node))
            else:
                got = f'`{norm(b[p][0])}`' if p in b and b[p][0] is not None else 'nothing (callee default)'
                obs.bad(rule, q, con,
                        f'`{norm(c.node)[:100]}` passes {got} for parameter `{p}` of {g.split(".")[-1]}: the caller\'s '
                        f'`{p}` is silently dropped', where(prog, f, c.node))
    return n


class Inliner:
    """expression inlining through single reaching definitions ("what is this value as a function of the sources")"""

    def __init__(self, res: FuncResult, source_call_leaf: Optional[str] = None, source_params: Sequence[str] = (),
                 stop: Sequence[str] = (), mark_sites: bool = False):
        self.stop = set(stop)
        self.mark_sites = mark_sites
        self.res = res
        self.src_leaf = source_call_leaf
        self.src_params = list(source_params)
        self.active = set()

    def inline(self, e: ast.expr, depth=0) -> ast.expr:
        if depth > 40:
            return ast.Name(id='DEEP', ctx=ast.Load())
        if isinstance(e, ast.Name) and isinstance(e.ctx, ast.Load):
            if e.id in self.stop:
                return ast.Name(id=e.id, ctx=ast.Load())
            ids = sorted(self.res.load_defs.get(id(e), ()))
            if not ids:
                return ast.Name(id=e.id, ctx=ast.Load())
            alts = [self._def_expr(self.res.defs[i], e.id, depth) for i in ids]
            if len(alts) == 1:
                return alts[0]
            alts.sort(key=lambda a: ast.dump(a))
            return ast.Call(func=ast.Name(id='PHI', ctx=ast.Load()), args=alts, keywords=[])
        if isinstance(e, ast.Subscript) and isinstance(e.slice, ast.Name) and isinstance(e.ctx, ast.Load):
            coll = self._indexed_collection(e.slice)
            if coll is not None and ast.dump(coll) == ast.dump(e.value):
                return ast.Call(func=ast.Name(id='ELEM', ctx=ast.Load()), args=[self.inline(e.value, depth + 1)], keywords=[])
        new_fields = {}
        for fld, val in ast.iter_fields(e):
            if isinstance(val, ast.expr):
                new_fields[fld] = self.inline(val, depth + 1)
            elif isinstance(val, list):
                new_fields[fld] = [self.inline(v, depth + 1) if isinstance(v, ast.expr)
                                   else (self._inline_kw(v, depth) if isinstance(v, ast.keyword)
                                         else (self._inline_comp(v, depth) if isinstance(v, ast.comprehension) else v))
                                   for v in val]
            else:
                new_fields[fld] = val
        return type(e)(**new_fields)

    def _inline_comp(self, g: ast.comprehension, depth):
        return ast.comprehension(target=g.target, iter=self.inline(g.iter, depth + 1),
                                 ifs=[self.inline(x, depth + 1) for x in g.ifs], is_async=g.is_async)

    def _inline_kw(self, kw: ast.keyword, depth):
        return ast.keyword(arg=kw.arg, value=self.inline(kw.value, depth + 1))

    def _indexed_collection(self, idx: ast.Name):
        """X when idx is the counter of `for idx in range(len(X))` or of `for idx, _ in enumerate(X)` (single reaching definition)"""
        ids = self.res.load_defs.get(id(idx), ())
        if len(ids) != 1:
            return None
        d = self.res.defs[next(iter(ids))]
        if d.kind != 'for' or not isinstance(d.node, ast.For):
            return None
        it, tgt = d.node.iter, d.node.target
        if isinstance(it, ast.Call) and isinstance(it.func, ast.Name):
            if it.func.id == 'range' and len(it.args) == 1 and isinstance(it.args[0], ast.Call) and isinstance(it.args[0].func, ast.Name) \
                    and it.args[0].func.id == 'len' and it.args[0].args and isinstance(tgt, ast.Name):
                return it.args[0].args[0]
            if it.func.id == 'enumerate' and it.args and isinstance(tgt, (ast.Tuple, ast.List)) and tgt.elts \
                    and isinstance(tgt.elts[0], ast.Name) and tgt.elts[0].id == idx.id:
                return it.args[0]
        return None

    def _def_expr(self, d, var, depth) -> ast.expr:
        key = d.did
        if key in self.active:
            return ast.Name(id='CYCLE', ctx=ast.Load())
        self.active.add(key)
        try:
            if d.kind == 'param':
                if var in self.src_params:
                    return ast.Name(id='SRC%d' % self.src_params.index(var), ctx=ast.Load())
                return ast.Name(id='PARAM_' + var, ctx=ast.Load())
            node = d.node
            if d.kind == 'assign' and isinstance(node, (ast.Assign, ast.AnnAssign)):
                tgt = node.targets[0] if isinstance(node, ast.Assign) else node.target
                if isinstance(tgt, (ast.Tuple, ast.List)):
                    k = [i for i, t in enumerate(tgt.elts) if isinstance(t, ast.Name) and t.id == var]
                    if not k:
                        return ast.Name(id='OPAQUE', ctx=ast.Load())
                    rhs = node.value
                    if isinstance(rhs, ast.Call) and self.src_leaf and _leaf_name(rhs.func) == self.src_leaf:
                        return ast.Name(id='SRC%d' % k[0], ctx=ast.Load())
                    if isinstance(rhs, (ast.Tuple, ast.List)) and len(rhs.elts) == len(tgt.elts):
                        return self.inline(rhs.elts[k[0]], depth + 1)
                    inner = self.inline(rhs, depth + 1)
                    if self.mark_sites and isinstance(inner, ast.Call):
                        # distinguish two textually identical calls (two draws): tag the call with its definition id
                        inner.keywords = list(inner.keywords) + [ast.keyword(arg='_site', value=ast.Constant(value=d.node.lineno * 1000 + d.node.col_offset))]
                    return ast.Subscript(value=inner, slice=ast.Constant(value=k[0]), ctx=ast.Load())
                return self.inline(node.value, depth + 1)
            if d.kind == 'aug' and isinstance(node, ast.AugAssign):
                prev = sorted(self.res.aug_prev.get(d.did, ()))
                alts = [self._def_expr(self.res.defs[i], var, depth + 1) for i in prev]
                old = alts[0] if len(alts) == 1 else ast.Call(func=ast.Name(id='PHI', ctx=ast.Load()), args=alts, keywords=[])
                return ast.BinOp(left=old, op=node.op, right=self.inline(node.value, depth + 1))
            if d.kind == 'for' and isinstance(node, ast.For):
                it, tgt = node.iter, node.target
                elem = lambda x: ast.Call(func=ast.Name(id='ELEM', ctx=ast.Load()), args=[self.inline(x, depth + 1)], keywords=[])
                # for a, b in zip(X, Y): a is an element of X, b of Y ; for i, x in enumerate(X): x is an element of X
                if isinstance(it, ast.Call) and isinstance(it.func, ast.Name) and isinstance(tgt, (ast.Tuple, ast.List)):
                    k = [i for i, t in enumerate(tgt.elts) if isinstance(t, ast.Name) and t.id == var]
                    if k and it.func.id == 'zip' and len(it.args) == len(tgt.elts) and not it.keywords:
                        return elem(it.args[k[0]])
                    if k and it.func.id == 'enumerate' and len(it.args) >= 1 and len(tgt.elts) == 2 and k[0] == 1:
                        return elem(it.args[0])
                if isinstance(tgt, (ast.Tuple, ast.List)):
                    # for a, b in pairs: a and b are DIFFERENT components of the element
                    k = [i for i, t in enumerate(tgt.elts) if isinstance(t, ast.Name) and t.id == var]
                    if k:
                        return ast.Subscript(value=elem(it), slice=ast.Constant(value=k[0]), ctx=ast.Load())
                return elem(it)
            return ast.Name(id='OPAQUE_' + d.kind, ctx=ast.Load())
        finally:
            self.active.discard(key)


def _leaf_name(fn):
    if isinstance(fn, ast.Attribute):
        return fn.attr
    if isinstance(fn, ast.Name):
        return fn.id
    return ''


def mentions(e: ast.AST, name: str) -> bool:
    return any(isinstance(n, ast.Name) and n.id == name for n in ast.walk(e))


def rename(e: ast.expr, mapping: Dict[str, str]) -> ast.expr:
    import copy
    e2 = copy.deepcopy(e)
    for n in ast.walk(e2):
        if isinstance(n, ast.Name) and n.id in mapping:
            n.id = mapping[n.id]
    return e2


SHARED_SIZE_FUNCS = {'_get_n_from_reduced_vectors', '_get_n_from_length'}


class _SharedSizes(ast.NodeTransformer):
    """sizes of the axis both operands share (pairs / conditions) are not operand-specific:
    SRCk.shape[1], SRCk[i].shape, len(SRCk[i]), _get_n_from_*(SRCk) -> N_SHARED"""

    @staticmethod
    def _is_src(e):
        return isinstance(e, ast.Name) and e.id in ('SRC0', 'SRC1')

    def visit_Subscript(self, node):
        # axis 1 is the axis the two operands share (contract: (A, P) and (B, P)); row-wise operations keep it
        if isinstance(node.value, ast.Attribute) and node.value.attr == 'shape' \
                and isinstance(node.slice, ast.Constant) and node.slice.value in (1, -1):
            return ast.Name(id='N_SHARED', ctx=ast.Load())
        return self.generic_visit(node)

    def visit_Attribute(self, node):
        if node.attr in ('shape', 'size') and isinstance(node.value, ast.Subscript) and self._is_src(node.value.value) \
                and isinstance(node.value.slice, ast.Constant) and isinstance(node.value.slice.value, int):
            return ast.Name(id='N_SHARED', ctx=ast.Load())
        return self.generic_visit(node)

    def visit_Call(self, node):
        nm = _leaf_name(node.func)
        if nm in SHARED_SIZE_FUNCS and node.args and self._is_src(node.args[0]):
            return ast.Name(id='N_SHARED', ctx=ast.Load())
        if nm == 'len' and node.args and isinstance(node.args[0], ast.Subscript) and self._is_src(node.args[0].value):
            return ast.Name(id='N_SHARED', ctx=ast.Load())
        return self.generic_visit(node)


def sym_operands(ctx, obs: Obligations, q: str, rule='SYM', source_leaf: Optional[str] = None,
                 source_params: Sequence[str] = (), res: Optional[FuncResult] = None) -> int:
    """SYM: the multiset of expressions computed from operand 1 alone equals, after renaming, the multiset of
    expressions computed from operand 2 alone (plain assignments only)."""
    prog = ctx.prog
    f = prog.func(q)
    r = res or ctx.dep.result(q)
    inl = Inliner(r, source_leaf, source_params)
    side0, side1 = [], []
    for s in ast.walk(f.node):
        if not isinstance(s, ast.Assign):
            continue
        # skip nested function bodies
        rhs = s.value
        if isinstance(rhs, ast.Call) and source_leaf and _leaf_name(rhs.func) == source_leaf:
            continue
        e = ast.fix_missing_locations(_SharedSizes().visit(inl.inline(rhs)))
        m0, m1 = mentions(e, 'SRC0'), mentions(e, 'SRC1')
        tgt = s.targets[0]
        if isinstance(tgt, (ast.Tuple, ast.List)):
            continue
        if m0 and not m1:
            side0.append((ast.dump(rename(e, {'SRC0': 'SRC'})), s))
        elif m1 and not m0:
            side1.append((ast.dump(rename(e, {'SRC1': 'SRC'})), s))
    d0 = sorted(x for x, _ in side0)
    d1 = sorted(x for x, _ in side1)
    n = len(side0) + len(side1)
    if d0 == d1:
        obs.ok(rule, q, 'operand 1 and operand 2 are transformed identically',
               f'{len(side0)} single-operand expressions on each side match after renaming', where(prog, f, f.node))
    else:
        only0 = [s for x, s in side0 if x not in d1 or d0.count(x) > d1.count(x)]
        only1 = [s for x, s in side1 if x not in d0 or d1.count(x) > d0.count(x)]
        odd = (only0 + only1)[0]
        obs.bad(rule, q, 'operand 1 and operand 2 are transformed identically',
                f'expressions without a mirror image: operand 1: {[norm(s)[:70] for s in only0]}; operand 2: '
                f'{[norm(s)[:70] for s in only1]} - a symmetric measure must treat both RDM stacks alike',
                where(prog, f, odd))
    return n



def call_closure(ctx, q: str, same_module: bool = True, limit: int = 40) -> List[str]:
    """q and the repo functions transitively called from it (by default only those of the same module: private helpers a function
    was split into).  Rules that look for a construct "in q" use this so that extracting a helper does not lose the construct."""
    prog = ctx.prog
    mod = q.rsplit('.', 1)[0] if prog.functions[q].cls is None else '.'.join(q.split('.')[:-2])
    seen, todo = [q], [q]
    while todo and len(seen) < limit:
        cur = todo.pop()
        r = ctx.dep.result(cur)
        if r is None:
            continue
        for c in r.calls:
            for g in c.callees:
                if g in seen or g not in prog.functions:
                    continue
                if same_module and not g.startswith(mod + '.'):
                    continue
                seen.append(g)
                todo.append(g)
    return seen


# ------------------------------------------------------------------------------------------------ string dispatch
def string_dispatch(f: FuncInfo, var: str, module_tree: Optional[ast.Module] = None):
    """How function f dispatches on the string parameter `var`.  Returns (form, arms) with form in {'chain', 'table', None} and
    arms = {key: (node, names)} where node is the if-arm / table row and names the identifiers mentioned in it.
       chain : if var == 'a': ... elif var in ('b', 'c'): ...
       table : a tuple / list / dict display whose rows start with (or are keyed by) string constants, consulted with `var`
               (for k, fn in TABLE: if var == k ...;  TABLE[var];  TABLE.get(var);  var in TABLE)"""
    arms: Dict[str, Tuple[ast.AST, Set[str]]] = {}
    for s in ast.walk(f.node):
        if isinstance(s, ast.If):
            for k in _dispatch_keys(s.test, var):
                if k not in arms:
                    arms[k] = (s, {n.id for st in s.body for n in ast.walk(st) if isinstance(n, ast.Name)} |
                               {n.attr for st in s.body for n in ast.walk(st) if isinstance(n, ast.Attribute)})
    if arms:
        return 'chain', arms
    # table form (a local table, or a module-level constant table)
    tables = {}
    scopes = list(ast.walk(f.node)) + (list(module_tree.body) if module_tree is not None else [])
    for s in scopes:
        if isinstance(s, ast.Assign) and isinstance(s.targets[0], ast.Name):
            rows = _table_rows(s.value)
            if rows:
                tables[s.targets[0].id] = rows
    used = None
    for n in ast.walk(f.node):
        # for k, ... in TABLE / TABLE.items(): ... var == k
        if isinstance(n, ast.For):
            it = n.iter
            if isinstance(it, ast.Call) and isinstance(it.func, ast.Attribute) and it.func.attr == 'items':
                it = it.func.value
            if isinstance(it, ast.Name) and it.id in tables:
                tg = n.target.elts[0] if isinstance(n.target, ast.Tuple) and n.target.elts else n.target
                if isinstance(tg, ast.Name) and any(
                        isinstance(c, ast.Compare) and len(c.ops) == 1 and (
                            (isinstance(c.ops[0], ast.Eq)
                             and {getattr(c.left, 'id', None), getattr(c.comparators[0], 'id', None)} == {var, tg.id})
                            or (isinstance(c.ops[0], ast.In) and getattr(c.left, 'id', None) == var
                                and getattr(c.comparators[0], 'id', None) == tg.id))
                        for c in ast.walk(n)):
                    used = it.id
        if isinstance(n, ast.Subscript) and isinstance(n.value, ast.Name) and n.value.id in tables \
                and isinstance(n.slice, ast.Name) and n.slice.id == var:
            used = n.value.id
        if isinstance(n, ast.Call) and isinstance(n.func, ast.Attribute) and n.func.attr == 'get' and isinstance(n.func.value, ast.Name) \
                and n.func.value.id in tables and n.args and isinstance(n.args[0], ast.Name) and n.args[0].id == var:
            used = n.func.value.id
    if used:
        return 'table', tables[used]
    return None, {}


def _dispatch_keys(test, var):
    if isinstance(test, ast.Compare) and len(test.ops) == 1 and isinstance(test.left, ast.Name) and test.left.id == var:
        c = test.comparators[0]
        if isinstance(test.ops[0], ast.Eq) and isinstance(c, ast.Constant) and isinstance(c.value, str):
            return [c.value]
        if isinstance(test.ops[0], ast.In) and isinstance(c, (ast.Tuple, ast.List, ast.Set)):
            return [e.value for e in c.elts if isinstance(e, ast.Constant) and isinstance(e.value, str)]
    if isinstance(test, ast.BoolOp) and isinstance(test.op, ast.Or):
        out = []
        for v in test.values:
            out += _dispatch_keys(v, var)
        return out
    return []


def _table_rows(v):
    rows = {}
    if isinstance(v, ast.Dict):
        for k, val in zip(v.keys, v.values):
            if isinstance(k, ast.Constant) and isinstance(k.value, str):
                rows[k.value] = (val, {n.id for n in ast.walk(val) if isinstance(n, ast.Name)} |
                                 {n.attr for n in ast.walk(val) if isinstance(n, ast.Attribute)})
        return rows if len(rows) == len(v.keys) and rows else {}
    def _row_keys(k):
        if isinstance(k, ast.Constant) and isinstance(k.value, str):
            return [k.value]
        if isinstance(k, (ast.Tuple, ast.List, ast.Set)) and k.elts and all(isinstance(x, ast.Constant) and isinstance(x.value, str)
                                                                            for x in k.elts):
            return [x.value for x in k.elts]
        return None
    if isinstance(v, (ast.Tuple, ast.List)) and v.elts and all(
            isinstance(e, (ast.Tuple, ast.List)) and len(e.elts) >= 2 and _row_keys(e.elts[0]) is not None for e in v.elts):
        for e in v.elts:
            names = {n.id for x in e.elts[1:] for n in ast.walk(x) if isinstance(n, ast.Name)} | \
                {n.attr for x in e.elts[1:] for n in ast.walk(x) if isinstance(n, ast.Attribute)}
            for key in _row_keys(e.elts[0]):
                rows.setdefault(key, (e, names))
        return rows
    return {}


def root_defs(r, name_node, depth=0):
    """reaching definitions of a name, followed through plain copies (`a = b`, `a, c = (b, d)`): the definitions of the object"""
    out = set()
    for i in r.load_defs.get(id(name_node), frozenset()):
        d = r.defs[i]
        if d.kind == 'assign' and isinstance(d.rhs, ast.Name) and depth < 8 and id(d.rhs) in r.load_defs:
            out |= root_defs(r, d.rhs, depth + 1)
        else:
            out.add(i)
    return frozenset(out)


# element-wise non-linear maps of VALUES; functions that also serve to compute indices / selections (where, abs, round, clip,
# maximum ...) are left out on purpose: the dependence engine does not tell a value flow from a selection flow
NONLINEAR = {'log', 'log2', 'log10', 'log1p', 'exp', 'expm1', 'sqrt', 'square', 'power', 'tanh', 'arctanh', 'reciprocal', 'rankdata'}


def mean_first(ctx, obs, q, averagers=('average_dataset_by', '_parse_input'), rule='MEAN-FIRST'):
    """The estimators are formulas on per-condition MEAN patterns: element-wise non-linear maps (log, sqrt, abs, clip ...) are
    applied to the means.  Applying one to the observations before they are averaged gives the mean of the logs, not the log of
    the mean.  Decided on explicit data flow: the dataset handed to the averaging helper must not derive from the result of a
    non-linear numpy call.  Affine maps (adding a prior, scaling) commute with the mean and are not restricted."""
    prog = ctx.prog
    f = prog.func(q)
    r = ctx.dep.analyze(q, data_only=True)
    n = 0
    for c in r.calls:
        if not any(x.split('.')[-1] in averagers for x in c.callees):
            continue
        n += 1
        src = c.arg(0) or frozenset()
        bad = sorted(t for t in src if t.startswith('CALL:') and t.split('@')[0].split('.')[-1] in NONLINEAR
                     and t.split(':', 1)[1].split('.')[0] in ('numpy', 'np', 'scipy'))
        con = f'the data averaged per condition (`{norm(c.node)[:50]}`) have not been through a non-linear map'
        if bad:
            obs.bad(rule, q, con, f'the dataset handed to the averaging step derives from `{bad[0][5:].split("@")[0]}(..)`: the non-linear map is '
                    f'applied to single observations and then averaged, the estimator is defined on the condition means', where(prog, f, c.node))
        else:
            obs.ok(rule, q, con, '', where(prog, f, c.node))
    return n
