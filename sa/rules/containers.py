"""Structural rules for the container classes (RDMs, Dataset, TemporalDataset): field provenance at constructor
calls, pairing of one selection with an array axis and the descriptor dict of that axis, sort stability, axis-less
squeeze, descriptor normalisation (DESC), writer/reader table agreement."""
from __future__ import annotations
import ast
from typing import Dict, List, Optional, Sequence, Set, Tuple

from .common import has_open_kwargs, where, norm, Inliner, mentions, calls_to, bound_args

# which descriptor dict labels which axis of which array field
AXIS_DESC = {
    ('measurements', 0): 'obs_descriptors', ('measurements', 1): 'channel_descriptors',
    ('measurements', 2): 'time_descriptors', ('dissimilarities', 0): 'rdm_descriptors',
    ('matrices', 1): 'pattern_descriptors', ('matrices', 2): 'pattern_descriptors',
}
DESC_EXTRACTORS = {'extract_dict', 'subset_descriptor'}
MAPPING_KINDS = (ast.Dict, ast.DictComp)
NON_MAPPING = (ast.Set, ast.SetComp, ast.List, ast.ListComp, ast.Tuple)


def _leaf(fn):
    return fn.attr if isinstance(fn, ast.Attribute) else (fn.id if isinstance(fn, ast.Name) else '')


def ctor_calls(ctx, q: str, class_names: Sequence[str]):
    r = ctx.dep.result(q)
    out = []
    for c in r.calls:
        for cq in c.callees:
            if cq.endswith('.__init__') and ctx.dep.prog.functions[cq].name == '__init__':
                fn = c.node.func
                if _leaf(fn) in class_names:
                    out.append((c, cq))
    return r, out


def field_provenance(ctx, obs, q: str, class_names: Sequence[str], fields: Sequence[str], rule='ND-field',
                     exceptions: Optional[Dict[Tuple[str, str], str]] = None, source_names: Sequence[str] = ()):
    """every constructor call of a value class in q passes, for each descriptor field, a mapping derived from the
    source object's field of the same kind"""
    prog = ctx.prog
    f = prog.func(q)
    r, calls = ctor_calls(ctx, q, class_names)
    exceptions = exceptions or {}
    inl = Inliner(r, None, ())
    n = 0
    for c, cq in calls:
        b = bound_args(prog, cq, c)
        for fld in fields:
            if (q, fld) in exceptions:
                obs.exceptions.append(f'{rule} {q} {fld}: {exceptions[(q, fld)]}')
                continue
            if fld not in prog.functions[cq].params:
                continue
            n += 1
            con = f'{fld} of the result derives from the source\'s {fld}'
            if fld not in b and has_open_kwargs(prog, c):
                obs.unk(rule, q, con, f'`{norm(c.node)[:90]}` passes a mapping whose keys are not all known', where(prog, f, c.node))
                continue
            if fld not in b or b[fld][0] is None or (isinstance(b[fld][0], ast.Constant) and b[fld][0].value is None):
                obs.bad(rule, q, con, f'`{norm(c.node)[:90]}` does not pass `{fld}`: the result loses the source\'s {fld}',
                        where(prog, f, c.node))
                continue
            e = inl.inline(b[fld][0])
            alts = _alts(e)
            bad_kind = [a for a in alts if isinstance(a, NON_MAPPING)]
            if bad_kind:
                obs.bad(rule, q, f'{fld} of the result is a mapping',
                        f'`{fld}={norm(b[fld][0])[:60]}` evaluates to a {type(bad_kind[0]).__name__} expression '
                        f'`{ast.unparse(bad_kind[0])[:70]}`, not a dict: descriptors must map names to values',
                        where(prog, f, c.node))
                continue
            has = any(isinstance(x, ast.Attribute) and x.attr == fld for x in ast.walk(e))
            if not has:
                has = _helper_reads_field(ctx, f, e, fld)
            if not has:
                # the value is taken out of a local container that is filled by statements (append / extend / item stores): the
                # expression form says nothing about what is in it
                roots = {x.id for x in ast.walk(b[fld][0]) if isinstance(x, ast.Name)}
                filled = [m for m in ast.walk(f.node) if isinstance(m, ast.Call) and isinstance(m.func, ast.Attribute)
                          and m.func.attr in ('append', 'extend', 'insert', 'update', 'setdefault') and isinstance(m.func.value, ast.Name)
                          and m.func.value.id in roots]
                filled += [m for m in ast.walk(f.node) if isinstance(m, ast.Assign) and isinstance(m.targets[0], ast.Subscript)
                           and isinstance(m.targets[0].value, ast.Name) and m.targets[0].value.id in roots]
                if filled:
                    obs.unk(rule, q, con, f'`{fld}={norm(b[fld][0])[:50]}` comes out of a container filled by `{norm(filled[0])[:50]}`',
                            where(prog, f, c.node))
                    continue
            obs.check(has, rule, q, con,
                      f'`{fld}={norm(b[fld][0])[:60]}` (inlined `{ast.unparse(e)[:90]}`) never reads a `.{fld}`: the result '
                      f'does not carry the source\'s {fld}', '', where(prog, f, c.node))
    return n


def _helper_reads_field(ctx, f, e, fld) -> bool:
    """helper(src)[k] where component k of the helper's result is computed from a `.fld` of its argument"""
    prog = ctx.prog
    for n in ast.walk(e):
        k = None
        call = None
        if isinstance(n, ast.Subscript) and isinstance(n.value, ast.Call) and isinstance(n.slice, ast.Constant):
            call, k = n.value, n.slice.value
        elif isinstance(n, ast.Call):
            call = n
        if call is None:
            continue
        r = prog.resolve_expr_static(prog.module_of(f), call.func, f)
        if not (r and r.startswith('func:')):
            continue
        hq = r[5:]
        hr = ctx.dep.result(hq)
        hinl = Inliner(hr, None, ())
        for node, _, _ in hr.returns:
            if node is None or node.value is None:
                continue
            v = node.value
            if k is not None and isinstance(v, ast.Tuple) and isinstance(k, int) and k < len(v.elts):
                v = v.elts[k]
            he = hinl.inline(v)
            if any(isinstance(x, ast.Attribute) and x.attr == fld for x in ast.walk(he)):
                return True
            # accumulators filled in loops: any store into the returned name from a .fld read
            if isinstance(v, ast.Name):
                hf = prog.func(hq)
                for st in ast.walk(hf.node):
                    if isinstance(st, ast.Assign) and any(isinstance(t, ast.Subscript) and isinstance(t.value, ast.Name)
                                                          and t.value.id == v.id or isinstance(t, ast.Subscript)
                                                          and isinstance(t.value, ast.Subscript)
                                                          and isinstance(t.value.value, ast.Name) and t.value.value.id == v.id
                                                          for t in st.targets):
                        se = hinl.inline(st.value)
                        if any(isinstance(x, ast.Attribute) and x.attr == fld for x in ast.walk(se)):
                            return True
    return False


def _alts(e):
    if isinstance(e, ast.Call) and isinstance(e.func, ast.Name) and e.func.id == 'PHI':
        out = []
        for a in e.args:
            out += _alts(a)
        return out
    return [e]


def _index_items(sl) -> List[ast.expr]:
    return list(sl.elts) if isinstance(sl, ast.Tuple) else [sl]


def selection_pairing(ctx, obs, q: str, rule='AXIS-pair', matrices_vars: Sequence[str] = ('dissimilarities', 'matrices', 'rdm_mats'),
                      self_name: Optional[str] = None):
    """a selection variable that indexes axis k of an array field is the one applied to the descriptor dict of axis k
    (and to no other), and every selected axis has its descriptor dict extracted with that selection"""
    prog = ctx.prog
    f = prog.func(q)
    r = ctx.dep.result(q)
    me = self_name or (f.pos_params[0] if f.pos_params else 'self')
    inl = Inliner(r, None, ())
    # (index name, array field, axis)
    arr_uses: List[Tuple[str, str, int, ast.AST]] = []
    for n in ast.walk(f.node):
        if not isinstance(n, ast.Subscript) or isinstance(n.ctx, ast.Store):
            continue
        base = n.value
        field = None
        if isinstance(base, ast.Attribute) and isinstance(base.value, ast.Name) and base.value.id == me \
                and base.attr in ('measurements', 'dissimilarities'):
            field = base.attr
            offset = 0
        else:
            # matrix form: local variable assigned from get_matrices(), possibly already sliced: x[:, sel][:, :, sel]
            root = base
            while isinstance(root, ast.Subscript):
                root = root.value
            if isinstance(root, ast.Name) and _from_get_matrices(r, root, inl):
                field = 'matrices'
        if field is None:
            continue
        for ax, it in enumerate(_index_items(n.slice)):
            if isinstance(it, ast.Name):
                arr_uses.append((_base_selection(r, it), field, ax, n))
            elif isinstance(it, ast.Subscript) and isinstance(it.value, ast.Name) and _is_reshape_index(it.slice):
                arr_uses.append((_base_selection(r, it.value), field, ax, n))   # sel[:, None] / sel[None, :]
    desc_uses: List[Tuple[str, str, ast.AST]] = []
    for n in ast.walk(f.node):
        if isinstance(n, ast.Call) and _leaf(n.func) in DESC_EXTRACTORS and len(n.args) >= 2:
            d, idx = n.args[0], n.args[1]
            if isinstance(d, ast.Attribute) and d.attr.endswith('descriptors') and isinstance(idx, ast.Name):
                desc_uses.append((idx.id, d.attr, n))
    n_ob = 0
    seen_axes = set()
    for idx, field, ax, node in arr_uses:
        want = AXIS_DESC.get((field, ax))
        if want is None:
            continue
        if (idx, field, ax) in seen_axes:
            continue
        seen_axes.add((idx, field, ax))
        mine = [d for (i, d, _) in desc_uses if i == idx]
        n_ob += 1
        con = f'selection `{idx}` on axis {ax} of {field} is applied to {want}'
        if not mine:
            # selection by basic int / slice names (loop counters) label nothing
            if not _is_selection_var(r, f, idx):
                n_ob -= 1
                continue
            # the selection may reach the descriptors another way: handed to a helper / method, packed into a tuple that is
            # iterated, aliased.  Only a selection that goes nowhere else is the recognised wrong form.
            other = [(i, nd) for (i, d, nd) in desc_uses if d == want and i != idx]
            if other:
                obs.bad(rule, q, con, f'`{norm(node)[:60]}` selects with `{idx}` but {want} is extracted with `{other[0][0]}` '
                        f'(`{norm(other[0][1])[:60]}`): values and labels are selected differently', where(prog, f, node))
                continue
            arr_nodes = {id(x) for (_i, _f, _a, an) in arr_uses for x in ast.walk(an)}
            elsewhere = []
            parents = {}
            for p_ in ast.walk(f.node):
                for ch in ast.iter_child_nodes(p_):
                    parents[id(ch)] = p_
            for x in ast.walk(f.node):
                if isinstance(x, ast.Name) and isinstance(x.ctx, ast.Load) and id(x) not in arr_nodes \
                        and (x.id == idx or _base_selection(r, x) == idx):
                    p_ = parents.get(id(x))
                    while isinstance(p_, (ast.keyword, ast.Starred)):
                        p_ = parents.get(id(p_))
                    is_lib_call = isinstance(p_, ast.Call) and isinstance(p_.func, ast.Attribute) and isinstance(p_.func.value, ast.Name) \
                        and p_.func.value.id in ('np', 'numpy', 'scipy')
                    if (isinstance(p_, (ast.Call, ast.Tuple, ast.List, ast.Dict)) and not is_lib_call) or \
                            (isinstance(p_, ast.Assign) and p_.value is x) or isinstance(p_, ast.Return):
                        elsewhere.append(p_)
            if elsewhere:
                obs.unk(rule, q, con, f'`{idx}` is not applied to {want} in this function directly; it is handed on in '
                        f'`{norm(elsewhere[0])[:60]}`', where(prog, f, node))
                continue
            obs.bad(rule, q, con,
                    f'`{norm(node)[:70]}` selects along axis {ax} of {field} with `{idx}` but no descriptor dict is '
                    f'extracted with `{idx}`: the values are subset, their labels are not', where(prog, f, node))
            continue
        wrong = [d for d in mine if d != want]
        obs.check(not wrong, rule, q, con,
                  f'`{idx}` selects axis {ax} of {field} (labelled by {want}) but is used to extract '
                  f'{sorted(set(wrong))}: values and labels of different axes are paired', '', where(prog, f, node))
    return n_ob


def _is_reshape_index(sl) -> bool:
    """[:, None] / [None, :] / [:, np.newaxis]: same values, another shape"""
    items = list(sl.elts) if isinstance(sl, ast.Tuple) else [sl]
    def ok(x):
        return (isinstance(x, ast.Slice) and x.lower is None and x.upper is None) or \
            (isinstance(x, ast.Constant) and x.value is None) or (isinstance(x, ast.Attribute) and x.attr == 'newaxis')
    return all(ok(x) for x in items) and any(isinstance(x, ast.Slice) for x in items)


def _base_selection(r, name: ast.Name, depth=0) -> str:
    """the selection variable an index variable is just a reshaped / open-mesh view of:
         rows = sel[:, None] ; cols = sel[None, :] ; rows, cols = np.ix_(sel, sel) ; idx = np.asarray(sel)"""
    if depth > 4:
        return name.id
    ids = r.load_defs.get(id(name), ())
    if len(ids) != 1:
        return name.id
    d = r.defs[next(iter(ids))]
    if d.kind != 'assign' or not isinstance(d.node, ast.Assign):
        return name.id
    v = d.node.value
    tgt = d.node.targets[0]
    if isinstance(tgt, (ast.Tuple, ast.List)):
        if isinstance(v, ast.Call) and _leaf(v.func) == 'ix_' and v.args and all(isinstance(a, ast.Name) for a in v.args):
            k = [i for i, t in enumerate(tgt.elts) if isinstance(t, ast.Name) and t.id == name.id]
            if k and k[0] < len(v.args):
                return _base_selection(r, v.args[k[0]], depth + 1)
        return name.id
    if isinstance(v, ast.Subscript) and isinstance(v.value, ast.Name) and _is_reshape_index(v.slice):
        return _base_selection(r, v.value, depth + 1)
    if isinstance(v, ast.Call) and _leaf(v.func) in ('asarray', 'array', 'reshape', 'ravel') and v.args and isinstance(v.args[0], ast.Name):
        return _base_selection(r, v.args[0], depth + 1)
    if isinstance(v, ast.Call) and isinstance(v.func, ast.Attribute) and v.func.attr == 'reshape' and isinstance(v.func.value, ast.Name):
        return _base_selection(r, v.func.value, depth + 1)
    return name.id


def _from_get_matrices(r, name: ast.Name, inl: Inliner) -> bool:
    e = inl.inline(name)
    for n in ast.walk(e):
        if isinstance(n, ast.Call) and _leaf(n.func) == 'get_matrices':
            return True
    return False


def _is_selection_var(r, f, idx: str) -> bool:
    """assigned from np.where / num_index / a list display / argsort ... (an index array), not a loop counter"""
    for d in r.defs.values():
        if d.var == idx and d.kind == 'assign' and d.rhs is not None:
            return True
    return False


def stable_sorts(ctx, obs, q: str, rule='SORT-stable'):
    """every argsort that defines a reordering in q is stable"""
    prog = ctx.prog
    f = prog.func(q)
    n = 0
    for c in ast.walk(f.node):
        if isinstance(c, ast.Call) and _leaf(c.func) in ('argsort', 'sort') and _leaf(c.func) == 'argsort':
            n += 1
            kind = next((k.value for k in c.keywords if k.arg == 'kind'), None)
            ok = isinstance(kind, ast.Constant) and kind.value in ('stable', 'mergesort')
            obs.check(ok, rule, q, 'argsort defining the new order is stable (kind=stable|mergesort)',
                      f'`{norm(c)[:80]}` uses the default (unstable) sort: rows with equal keys can change their relative '
                      f'order', '', where(prog, f, c))
    return n


def no_axisless_squeeze(ctx, obs, q: str, rule='SQUEEZE'):
    prog = ctx.prog
    f = prog.func(q)
    n = 0
    for c in ast.walk(f.node):
        if isinstance(c, ast.Call) and _leaf(c.func) == 'squeeze':
            is_np = isinstance(c.func, ast.Attribute) and isinstance(c.func.value, ast.Name) and c.func.value.id in ('np', 'numpy')
            has_axis = any(k.arg == 'axis' for k in c.keywords) or len(c.args) > (1 if is_np else 0)
            n += 1
            obs.check(has_axis, rule, q, 'squeeze names the axis it removes',
                      f'`{norm(c)[:80]}` squeezes every size-1 axis: with a single observation / channel / time point the '
                      f'array loses a dimension that must be kept', '', where(prog, f, c))
    return n


def desc_normalised(ctx, obs, q: str, rule='DESC'):
    """a value read raw from a *_descriptors dict ("list-like") is wrapped by np.asarray/np.array before ndarray-only
    operations (tuple subscripts with None/slices, boolean-array indexing)"""
    prog = ctx.prog
    f = prog.func(q)
    r = ctx.dep.result(q)
    raw: Dict[str, ast.AST] = {}
    for d in r.defs.values():
        if d.kind == 'assign' and isinstance(d.node, ast.Assign) and len(d.node.targets) == 1 \
                and isinstance(d.node.targets[0], ast.Name) and isinstance(d.rhs, ast.Subscript) \
                and isinstance(d.rhs.value, ast.Attribute) and d.rhs.value.attr.endswith('descriptors'):
            raw[d.var] = d.node
    n = 0
    flagged = set()
    for node in ast.walk(f.node):
        if isinstance(node, ast.Subscript) and isinstance(node.value, ast.Name) and node.value.id in raw:
            v = node.value.id
            # only if every reaching definition of this use is the raw read
            ids = r.load_defs.get(id(node.value), frozenset())
            if not ids or any(r.defs[i].node is not raw[v] for i in ids):
                continue
            items = _index_items(node.slice)
            tuple_nd = isinstance(node.slice, ast.Tuple) and any(
                isinstance(it, ast.Slice) or (isinstance(it, ast.Constant) and it.value is None) for it in items)
            bool_idx = False
            if isinstance(node.slice, ast.Name):
                for d in r.defs.values():
                    if d.var == node.slice.id and d.rhs is not None and isinstance(d.rhs, ast.Call) \
                            and _leaf(d.rhs.func) in ('isin', 'in1d', 'logical_and', 'logical_or', 'isnan', 'array'):
                        bool_idx = _leaf(d.rhs.func) != 'array'
            if isinstance(node.slice, (ast.Compare,)):
                bool_idx = True
            if tuple_nd or bool_idx:
                n += 1
                key = (v, 'tuple' if tuple_nd else 'bool')
                if key in flagged:
                    continue
                flagged.add(key)
                obs.bad(rule, q, f'descriptor value `{v}` is converted to an array before ndarray-only indexing',
                        f'`{norm(node)[:60]}`: `{v}` is read raw from a descriptor dict (documented as list-like) and '
                        f'{"indexed with a tuple / None" if tuple_nd else "indexed with a boolean array"}: a list-typed '
                        f'descriptor raises TypeError', where(prog, f, node))
    # element-wise comparison / arithmetic between two slices of the raw value: `desc[:-1] <= desc[1:]` is ONE lexicographic
    # comparison for a list (and `-` a TypeError); only an array compares element by element
    def raw_slice(e):
        if isinstance(e, ast.Subscript) and isinstance(e.value, ast.Name) and e.value.id in raw and isinstance(e.slice, ast.Slice):
            ids = r.load_defs.get(id(e.value), frozenset())
            return bool(ids) and all(r.defs[i].node is raw[e.value.id] for i in ids)
        return False
    for node in ast.walk(f.node):
        pair = None
        if isinstance(node, ast.Compare) and len(node.ops) == 1 and isinstance(node.ops[0], (ast.Lt, ast.LtE, ast.Gt, ast.GtE, ast.Eq, ast.NotEq)):
            pair = (node.left, node.comparators[0])
        elif isinstance(node, ast.BinOp) and isinstance(node.op, (ast.Sub, ast.Mult, ast.Div)):
            pair = (node.left, node.right)
        if pair and raw_slice(pair[0]) and raw_slice(pair[1]):
            n += 1
            v = pair[0].value.id
            if (v, 'elementwise') in flagged:
                continue
            flagged.add((v, 'elementwise'))
            obs.bad(rule, q, f'descriptor value `{v}` is converted to an array before element-wise comparison',
                    f'`{norm(node)[:60]}`: `{v}` is read raw from a descriptor dict (documented as list-like); for a list the operator '
                    f'compares the two slices as wholes (one lexicographic result), not element by element', where(prog, f, node))
    if not flagged:
        obs.ok(rule, q, 'descriptor values are normalised before ndarray-only operations', f'{len(raw)} raw descriptor reads')
    return n


def table_agreement(ctx, obs, writer_q: str, reader_q: str, rule='TAB', ignore: Sequence[str] = (),
                    reader_extra: Sequence[str] = ()):
    """keys written by the writer's dict == keys read by the reader from its dict parameter"""
    prog = ctx.prog
    wf, rf = prog.func(writer_q), prog.func(reader_q)
    written: Dict[str, ast.AST] = {}
    for n in ast.walk(wf.node):
        if isinstance(n, ast.Assign):
            for t in n.targets:
                if isinstance(t, ast.Subscript) and isinstance(t.value, ast.Name) and isinstance(t.slice, ast.Constant) \
                        and isinstance(t.slice.value, str):
                    written.setdefault(t.slice.value, n)
        if isinstance(n, ast.Dict):
            for k in n.keys:
                if isinstance(k, ast.Constant) and isinstance(k.value, str):
                    written.setdefault(k.value, n)
    param = rf.pos_params[0] if rf.pos_params else None
    read: Dict[str, ast.AST] = {}
    for n in ast.walk(rf.node):
        if isinstance(n, ast.Subscript) and isinstance(n.value, ast.Name) and n.value.id == param \
                and isinstance(n.slice, ast.Constant) and isinstance(n.slice.value, str):
            read.setdefault(n.slice.value, n)
        # d.get('k') / d.get('k', default) / d.pop('k') / 'k' in d
        if isinstance(n, ast.Call) and isinstance(n.func, ast.Attribute) and n.func.attr in ('get', 'pop', 'setdefault') \
                and isinstance(n.func.value, ast.Name) and n.func.value.id == param and n.args \
                and isinstance(n.args[0], ast.Constant) and isinstance(n.args[0].value, str):
            read.setdefault(n.args[0].value, n)
        if isinstance(n, ast.Compare) and len(n.ops) == 1 and isinstance(n.ops[0], (ast.In, ast.NotIn)) \
                and isinstance(n.left, ast.Constant) and isinstance(n.left.value, str) \
                and isinstance(n.comparators[0], ast.Name) and n.comparators[0].id == param:
            read.setdefault(n.left.value, n)
    # a reader that walks the whole mapping (for k, v in d.items()) reads every key
    def _iterates_param(it):
        if isinstance(it, ast.Name) and it.id == param:
            return True
        return isinstance(it, ast.Call) and isinstance(it.func, ast.Attribute) and it.func.attr in ('items', 'keys', 'values') \
            and isinstance(it.func.value, ast.Name) and it.func.value.id == param
    reads_all = any((isinstance(n, ast.For) and _iterates_param(n.iter)) or
                    (isinstance(n, (ast.ListComp, ast.DictComp, ast.SetComp, ast.GeneratorExp))
                     and any(_iterates_param(g.iter) for g in n.generators)) for n in ast.walk(rf.node))
    for k in reader_extra:
        read.setdefault(k, rf.node)
    n = 0
    for k in sorted(set(written) | set(read)):
        if k in ignore:
            continue
        n += 1
        if k in written and k in read:
            obs.ok(rule, writer_q, f'key {k!r} written by {writer_q.split(".")[-1]} is read by {reader_q.split(".")[-1]}', '')
        elif k in written and reads_all:
            obs.unk(rule, writer_q, f'key {k!r} written by {writer_q.split(".")[-1]} is read by {reader_q.split(".")[-1]}',
                    'the reader iterates over the whole mapping')
        elif k in written:
            obs.bad(rule, writer_q, f'key {k!r} written by {writer_q.split(".")[-1]} is read by {reader_q.split(".")[-1]}',
                    f'{writer_q} stores {k!r} but {reader_q} never reads it: the field is lost on load',
                    where(prog, wf, written[k]))
        else:
            obs.bad(rule, writer_q, f'key {k!r} read by {reader_q.split(".")[-1]} is written by {writer_q.split(".")[-1]}',
                    f'{reader_q} reads {k!r} which {writer_q} never writes: loading raises KeyError / loses the field',
                    where(prog, rf, read[k]))
    return n


def selection_consults_descriptor(ctx, obs, q: str, rule='SEL-DESC') -> int:
    """subset / subsample `by` a descriptor: the positions selected are found by comparing the requested value(s) with the VALUES of
    that descriptor.  Every definition of the selection variable (the one the descriptor dicts are extracted with) - in every arm
    of the function - must read the descriptor values: directly, through a local bound to them, through a loop over them, or
    under a condition on them.  A definition that derives the positions from the requested values alone (`by == 'index'`: "the
    index descriptor numbers the items") is only right for objects that were never subset, reordered or concatenated."""
    prog = ctx.prog
    f = prog.func(q)
    fn = f.node
    # S: names the descriptor dicts are extracted with
    sel = set()
    for c in ast.walk(fn):
        if isinstance(c, ast.Call) and _leaf(c.func) in ('extract_dict', 'subset_descriptor') and len(c.args) >= 2 and isinstance(c.args[1], ast.Name):
            sel.add(c.args[1].id)
    if not sel:
        return 0

    def is_desc_read(e) -> bool:
        """self.<x>_descriptors[by] (any subscript of a descriptor dict of the object)"""
        return isinstance(e, ast.Subscript) and isinstance(e.value, ast.Attribute) and e.value.attr.endswith('descriptors') \
            and not isinstance(e.slice, ast.Constant)
    tainted = set()
    for _ in range(4):
        for st in ast.walk(fn):
            def mentions(e):
                return any(is_desc_read(x) or (isinstance(x, ast.Name) and x.id in tainted) for x in ast.walk(e))
            if isinstance(st, ast.Assign) and mentions(st.value):
                for t in st.targets:
                    for x in ast.walk(t):
                        if isinstance(x, ast.Name) and x.id not in sel:
                            tainted.add(x.id)
            elif isinstance(st, (ast.For, ast.comprehension)) and mentions(st.iter):
                for x in ast.walk(st.target):
                    if isinstance(x, ast.Name):
                        tainted.add(x.id)
    parents = {}
    for p in ast.walk(fn):
        for ch in ast.iter_child_nodes(p):
            parents[id(ch)] = p

    def consults(st) -> bool:
        def mentions(e):
            return any(is_desc_read(x) or (isinstance(x, ast.Name) and x.id in tainted) for x in ast.walk(e))
        if mentions(st):
            return True
        p = parents.get(id(st))
        while p is not None and p is not fn:
            if isinstance(p, (ast.If, ast.While)) and mentions(p.test):
                return True
            if isinstance(p, ast.For) and mentions(p.iter):
                return True
            p = parents.get(id(p))
        return False
    n = 0
    for st in ast.walk(fn):
        name = None
        if isinstance(st, ast.Assign) and len(st.targets) == 1 and isinstance(st.targets[0], ast.Name) and st.targets[0].id in sel:
            name, rhs = st.targets[0].id, st.value
            if isinstance(rhs, (ast.List, ast.Tuple)) and not rhs.elts:
                continue            # empty initialisation
            if any(isinstance(x, ast.Name) and x.id == name for x in ast.walk(rhs)):
                continue            # a transformation of the selection itself (np.array(selection), np.sort(selection))
        elif isinstance(st, ast.Expr) and isinstance(st.value, ast.Call) and isinstance(st.value.func, ast.Attribute) \
                and st.value.func.attr in ('append', 'extend') and isinstance(st.value.func.value, ast.Name) and st.value.func.value.id in sel:
            name = st.value.func.value.id
        if name is None:
            continue
        n += 1
        con = f'`{norm(st)[:60]}`: the positions selected are found from the values of the descriptor'
        opaque = [x for x in ast.walk(st) if isinstance(x, ast.Call) and (
            (isinstance(x.func, ast.Name) and x.func.id == 'getattr') or
            any(isinstance(a, ast.Name) and a.id in (f.pos_params[:1] or ['self']) for a in x.args))]
        if consults(st):
            obs.ok(rule, q, con, '', where(prog, f, st))
        elif opaque:
            obs.unk(rule, q, con, f'`{norm(opaque[0])[:60]}` may read the descriptor (dynamic attribute / the object is handed to a helper)',
                    where(prog, f, st))
        else:
            obs.bad(rule, q, con, f'`{norm(st)[:90]}` derives the positions from the requested value(s) without reading the descriptor: for an '
                    f'object whose descriptor values are not 0..n-1 in order (any subset, reordered or concatenated object) other items '
                    f'are selected than the ones asked for', where(prog, f, st))
    return n
