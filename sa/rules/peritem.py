"""NORM - a statistic used to normalise each item of a stack is taken WITHIN the item.

`x - mean(x, axis, keepdims)` / `x / std(x, axis, keepdims)` broadcast whichever axis was reduced, so numpy never complains about
the wrong one; but normalising every RDM by statistics taken across RDMs (per pair) is a different quantity.  With the axis
roles of rules/axis.py: for every binary `-` or `/` (also in-place) whose one operand has the roles (.., item, .., within, ..) and
whose other operand contains a reduction OF THE SAME ROLES, the reduction must remove the `within` role and keep the `item` role.

    kept item, removed within      -> ok
    kept within, removed item      -> violation (statistic across items)
    removed both (no axis)         -> violation when the operand is a stack (one global constant does not normalise each item)
    roles unknown                  -> undecided
"""
from __future__ import annotations
import ast
from typing import Dict, Optional, Tuple

from .axis import AxisEval, Contract, REDUCERS, _leaf
from .common import norm, where


def per_item_statistics(ctx, obs, q: str, contracts: Dict[str, Contract], item: str, within: str, rule='NORM',
                        method_roles: Optional[Dict[str, Tuple[str, ...]]] = None, what='RDM') -> int:
    prog = ctx.prog
    f = prog.func(q)
    ev = AxisEval(ctx, q, contracts, method_roles=method_roles)
    n = 0
    seen = set()
    for s in ast.walk(f.node):
        pairs = []
        if isinstance(s, ast.BinOp) and isinstance(s.op, (ast.Sub, ast.Div)):
            pairs.append((s.left, s.right, s))
        elif isinstance(s, ast.AugAssign) and isinstance(s.op, (ast.Sub, ast.Div)):
            pairs.append((s.target, s.value, s))
        for left, right, node in pairs:
            lr = ev.roles(left)
            if lr is None or item not in lr or (within is not None and within not in lr) or len(lr) < 2:
                continue
            for c in ast.walk(right):
                if not (isinstance(c, ast.Call) and _leaf(c.func) in REDUCERS) or id(c) in seen:
                    continue
                fn = c.func
                is_np = isinstance(fn, ast.Attribute) and isinstance(fn.value, ast.Name) and fn.value.id in ('np', 'numpy')
                operand = (c.args[0] if c.args else None) if is_np or isinstance(fn, ast.Name) else fn.value
                if operand is None:
                    continue
                src = ev.roles(operand)
                if src is None or item not in src or (within is not None and within not in src) or len(src) < 2:
                    continue
                seen.add(id(c))
                n += 1
                res = ev.roles(c)
                con = f'the statistic that normalises each {what} is taken within that {what}'
                w = where(prog, f, c)
                if res is None:
                    obs.unk(rule, q, con, f'`{norm(c)[:70]}`: axis not a constant', w)
                elif item in res and (within not in res if within is not None else len(res) < len(src) or '1' in res):
                    obs.ok(rule, q, con, f'`{norm(c)[:60]}` -> {res}', w)
                elif item not in res and (within in res if within is not None else len(res) > 0):
                    obs.bad(rule, q, con, f'`{norm(c)[:70]}` reduces over the {what}s (roles {src} -> {res}): every {what} is normalised by a '
                            f'statistic taken across {what}s, pair by pair', w)
                elif item not in res and (within is None or within not in res):
                    obs.bad(rule, q, con, f'`{norm(c)[:70]}` reduces over the whole stack (roles {src} -> {res}): one global constant does not '
                            f'normalise each {what}', w)
                else:
                    obs.unk(rule, q, con, f'`{norm(c)[:70]}`: roles {src} -> {res}', w)
    return n
