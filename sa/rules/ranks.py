"""RANK - ranks that feed rank correlations / pooled rank RDMs are tie-averaged (scipy.stats.rankdata, method 'average').

Positive detection of the *ordinal* ranking idioms, which break ties by position instead of averaging them:
    r[np.argsort(x)] = np.arange(...)        (scatter of a counter through the sorting permutation)
    np.argsort(np.argsort(x)) / x.argsort().argsort()
and of rankdata calls with an explicit non-average method.  A function with none of these and with a rankdata call is
discharged; a function without any recognised ranking is `undecided` (another way of ranking - not judged)."""
from __future__ import annotations
import ast

from .common import where, norm


def _leaf(fn):
    return fn.attr if isinstance(fn, ast.Attribute) else (fn.id if isinstance(fn, ast.Name) else '')


def _is_argsort(e) -> bool:
    return isinstance(e, ast.Call) and _leaf(e.func) == 'argsort'


def tie_averaged(ctx, obs, q: str, rule='RANK', need_rank=True):
    prog = ctx.prog
    f = prog.func(q)
    con = 'ranks are tie-averaged (scipy rankdata, average method)'
    sort_vars = {n.targets[0].id for n in ast.walk(f.node) if isinstance(n, ast.Assign) and isinstance(n.targets[0], ast.Name)
                 and _is_argsort(n.value)}
    bad = None
    for n in ast.walk(f.node):
        if isinstance(n, ast.Assign) and isinstance(n.targets[0], ast.Subscript):
            sl = n.targets[0].slice
            if ((isinstance(sl, ast.Name) and sl.id in sort_vars) or _is_argsort(sl)) and isinstance(n.value, ast.Call) \
                    and _leaf(n.value.func) in ('arange', 'range'):
                bad = (n, 'a counter scattered through the sorting permutation gives ordinal ranks: tied values get different '
                          'ranks depending on their position')
        if _is_argsort(n):
            inner = n.func.value if isinstance(n.func, ast.Attribute) and not (isinstance(n.func.value, ast.Name) and n.func.value.id in ('np', 'numpy')) \
                else (n.args[0] if n.args else None)
            if _is_argsort(inner) or (isinstance(inner, ast.Name) and inner.id in sort_vars):
                bad = (n, 'argsort of argsort gives ordinal ranks: tied values get different ranks depending on their position')
        if isinstance(n, ast.Call) and _leaf(n.func) == 'rankdata':
            m = next((k.value for k in n.keywords if k.arg == 'method'), n.args[1] if len(n.args) > 1 else None)
            if isinstance(m, ast.Constant) and m.value != 'average':
                bad = (n, f'rankdata with method {m.value!r} does not average tied ranks')
    has_rank = any((isinstance(n, ast.Call) and _leaf(n.func) == 'rankdata') or (isinstance(n, ast.Attribute) and n.attr == 'rankdata')
                   or (isinstance(n, ast.Name) and n.id == 'rankdata') for n in ast.walk(f.node))
    if bad:
        obs.bad(rule, q, con, f'`{norm(bad[0])[:80]}`: {bad[1]}', where(prog, f, bad[0]))
    elif has_rank:
        obs.ok(rule, q, con, 'rankdata (average) and no ordinal-rank idiom', where(prog, f, f.node))
    elif need_rank:
        obs.unk(rule, q, con, 'no rankdata call and no recognised ranking idiom', where(prog, f, f.node))


# ------------------------------------------------------------------------------------------------ RANK-ALL
def ranked_on_all_paths(ctx, obs, q: str, source_leaf: str = '_parse_input_rdms', rule='RANK-ALL'):
    """In a rank correlation every dissimilarity vector that reaches the result has been rank-transformed - on EVERY path.
    A must-analysis over the statements of q (after the helper-inlining pre-pass), states per variable:

        N  not derived from the source vectors      R  derived from ranked vectors only
        U  derived from un-ranked source vectors    ?  passed through a repo function that may or may not rank

    source call -> U;  rankdata(x) / f(rankdata, .., x) -> R;  other expressions: U if any operand is U, else ? , else R, else N;
    branches merge to the worst state (U > ? > R > N): ranking in one arm only leaves U.  The returned value must not be U
    (violation) and is undecided when it is ?."""
    prog = ctx.prog
    f = prog.func(q)
    order = {'N': 0, 'R': 1, '?': 2, 'U': 3}
    ranks_somewhere = {}

    def callee_ranks(name):
        if name not in ranks_somewhere:
            hit = None
            for gq, g in prog.functions.items():
                if g.name == name and g.module == f.module and g.cls is None:
                    hit = any((isinstance(n, ast.Attribute) and n.attr == 'rankdata') or (isinstance(n, ast.Name) and n.id == 'rankdata')
                              for n in ast.walk(g.node))
            ranks_somewhere[name] = hit
        return ranks_somewhere[name]

    def worst(states):
        states = list(states)
        return max(states, key=lambda s: order[s]) if states else 'N'

    def ev(e, env):
        if isinstance(e, ast.Name):
            return env.get(e.id, 'N')
        if isinstance(e, ast.Call):
            leaf = _leaf(e.func)
            operands = list(e.args) + [k.value for k in e.keywords]
            if isinstance(e.func, ast.Attribute) and not (isinstance(e.func.value, ast.Name) and e.func.value.id in ('np', 'numpy', 'scipy')):
                operands.append(e.func.value)
            st = worst(ev(a, env) for a in operands)
            if leaf == source_leaf:
                return 'U'
            mentions_rank = leaf == 'rankdata' or any(
                (isinstance(n, ast.Attribute) and n.attr == 'rankdata') or (isinstance(n, ast.Name) and n.id == 'rankdata')
                for a in operands for n in ast.walk(a))
            if mentions_rank:
                return 'R' if st != 'N' else 'N'
            if isinstance(e.func, ast.Name) and st in ('U', '?'):
                cr = callee_ranks(leaf)
                if cr is None and leaf not in ('len', 'int', 'float', 'abs', 'min', 'max', 'sum', 'range', 'tuple', 'list'):
                    return '?' if st == 'U' else st         # unknown callable
                if cr:
                    return '?'
            return st
        if isinstance(e, (ast.Lambda, ast.Constant)):
            return 'N'
        return worst(ev(c, env) for c in ast.iter_child_nodes(e) if isinstance(c, ast.expr))

    returned = []

    def assign(t, st, env):
        if isinstance(t, ast.Name):
            env[t.id] = st
        elif isinstance(t, (ast.Tuple, ast.List)):
            for x in t.elts:
                assign(x, st, env)
        elif isinstance(t, ast.Starred):
            assign(t.value, st, env)
        elif isinstance(t, (ast.Subscript, ast.Attribute)):
            b = t
            while isinstance(b, (ast.Subscript, ast.Attribute)):
                b = b.value
            if isinstance(b, ast.Name):
                env[b.id] = worst([env.get(b.id, 'N'), st])

    def merge(a, b):
        return {k: worst([a.get(k, 'N'), b.get(k, 'N')]) for k in set(a) | set(b)}

    def block(stmts, env):
        for s in stmts:
            if isinstance(s, ast.Assign):
                st = ev(s.value, env)
                for t in s.targets:
                    assign(t, st, env)
            elif isinstance(s, ast.AnnAssign) and s.value is not None:
                assign(s.target, ev(s.value, env), env)
            elif isinstance(s, ast.AugAssign):
                assign(s.target, worst([ev(s.value, env), ev(s.target, env)]), env)
            elif isinstance(s, ast.Return):
                if s.value is not None:
                    returned.append((s, ev(s.value, env)))
                return env, True
            elif isinstance(s, ast.If):
                e1, r1 = block(s.body, dict(env))
                e2, r2 = block(s.orelse, dict(env))
                if r1 and r2:
                    return env, True
                env = e2 if r1 else e1 if r2 else merge(e1, e2)
            elif isinstance(s, (ast.For, ast.While)):
                if isinstance(s, ast.For):
                    assign(s.target, ev(s.iter, env), env)
                for _ in range(2):
                    e1, _r = block(s.body, dict(env))
                    env = merge(env, e1)
                e1, _r = block(s.orelse, dict(env))
                env = merge(env, e1)
            elif isinstance(s, ast.With):
                env, r = block(s.body, env)
                if r:
                    return env, True
            elif isinstance(s, ast.Try):
                e1, _r = block(s.body, dict(env))
                env = merge(env, e1)
                for h in s.handlers:
                    e2, _r = block(h.body, dict(env))
                    env = merge(env, e2)
                e3, _r = block(s.finalbody, dict(env))
                env = merge(env, e3)
        return env, False

    block(f.node.body, {})
    con = 'every dissimilarity vector that reaches the result has been rank-transformed, on every path'
    if not returned:
        obs.unk(rule, q, con, 'no return statement', where(prog, f, f.node))
    for s, st in returned:
        if st == 'U':
            obs.bad(rule, q, con, f'`{norm(s)[:60]}` is reached by source dissimilarities that were not ranked on some path (e.g. ranking '
                    f'skipped under a condition): the result then depends on the raw values, not on their order', where(prog, f, s))
        elif st == 'R':
            obs.ok(rule, q, con, '', where(prog, f, s))
        else:
            obs.unk(rule, q, con, f'`{norm(s)[:60]}`: state {st} (N = no dependence on the source found, ? = passes through a helper that '
                    f'may rank)', where(prog, f, s))
