"""RANK - ranks that feed rank correlations / pooled rank RDMs are tie-averaged (scipy.stats.rankdata, method 'average').

Positive detection of the *ordinal* ranking idioms, which break ties by position instead of averaging them:
    r[np.argsort(x)] = np.arange(...)        (scatter of a counter through the sorting permutation)
    np.argsort(np.argsort(x)) / x.argsort().argsort()
and of rankdata calls with an explicit non-average method.  A function with none of these and with a rankdata call is
discharged; a function without any recognised ranking is `undecided` (another way of ranking - not judged)."""
from __future__ import annotations
import ast

from .common import where, norm


def _leaf(fn):
    return fn.attr if isinstance(fn, ast.Attribute) else (fn.id if isinstance(fn, ast.Name) else '')


def _is_argsort(e) -> bool:
    return isinstance(e, ast.Call) and _leaf(e.func) == 'argsort'


def tie_averaged(ctx, obs, q: str, rule='RANK', need_rank=True):
    prog = ctx.prog
    f = prog.func(q)
    con = 'ranks are tie-averaged (scipy rankdata, average method)'
    sort_vars = {n.targets[0].id for n in ast.walk(f.node) if isinstance(n, ast.Assign) and isinstance(n.targets[0], ast.Name)
                 and _is_argsort(n.value)}
    bad = None
    for n in ast.walk(f.node):
        if isinstance(n, ast.Assign) and isinstance(n.targets[0], ast.Subscript):
            sl = n.targets[0].slice
            if ((isinstance(sl, ast.Name) and sl.id in sort_vars) or _is_argsort(sl)) and isinstance(n.value, ast.Call) \
                    and _leaf(n.value.func) in ('arange', 'range'):
                bad = (n, 'a counter scattered through the sorting permutation gives ordinal ranks: tied values get different '
                          'ranks depending on their position')
        if _is_argsort(n):
            inner = n.func.value if isinstance(n.func, ast.Attribute) and not (isinstance(n.func.value, ast.Name) and n.func.value.id in ('np', 'numpy')) \
                else (n.args[0] if n.args else None)
            if _is_argsort(inner) or (isinstance(inner, ast.Name) and inner.id in sort_vars):
                bad = (n, 'argsort of argsort gives ordinal ranks: tied values get different ranks depending on their position')
        if isinstance(n, ast.Call) and _leaf(n.func) == 'rankdata':
            m = next((k.value for k in n.keywords if k.arg == 'method'), n.args[1] if len(n.args) > 1 else None)
            if isinstance(m, ast.Constant) and m.value != 'average':
                bad = (n, f'rankdata with method {m.value!r} does not average tied ranks')
    has_rank = any((isinstance(n, ast.Call) and _leaf(n.func) == 'rankdata') or (isinstance(n, ast.Attribute) and n.attr == 'rankdata')
                   or (isinstance(n, ast.Name) and n.id == 'rankdata') for n in ast.walk(f.node))
    if bad:
        obs.bad(rule, q, con, f'`{norm(bad[0])[:80]}`: {bad[1]}', where(prog, f, bad[0]))
    elif has_rank:
        obs.ok(rule, q, con, 'rankdata (average) and no ordinal-rank idiom', where(prog, f, f.node))
    elif need_rank:
        obs.unk(rule, q, con, 'no rankdata call and no recognised ranking idiom', where(prog, f, f.node))
