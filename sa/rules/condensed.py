"""CONDENSED - the position of pair (i, j) in the vector (upper-triangular, row-major) form of an n x n matrix is

        i * n - i * (i + 1) / 2 + (j - i - 1)            valid only for i < j

The formula is recognised as a POLYNOMIAL (any spelling: `//2`, `/2`, bracketing, order of the terms): monomials
{i*n: 1, i^2: -1/2, i: -3/2, j: 1, 1: -1}.  The two index variables must then be ORDERED: bound by np.triu_indices /
itertools.combinations / nested `for i in range(n): for j in range(i + 1, n)`, or passed through np.minimum / np.maximum (or a
sort of the pair).  Re-mapping an ordered pair through an index array (`row, col = idx[row], idx[col]`) loses the order: for
i > j the formula addresses another pair (or another row), silently.  Ordered -> ok, definitely re-mapped / unordered -> violation,
otherwise undecided."""
from __future__ import annotations
import ast
from fractions import Fraction
from typing import Dict, Optional, Tuple

from .common import norm, where

Mono = Tuple[Tuple[str, int], ...]


def _mul(a: Dict[Mono, Fraction], b: Dict[Mono, Fraction]) -> Dict[Mono, Fraction]:
    out: Dict[Mono, Fraction] = {}
    for ma, ca in a.items():
        for mb, cb in b.items():
            d = dict(ma)
            for v, k in mb:
                d[v] = d.get(v, 0) + k
            m = tuple(sorted(d.items()))
            out[m] = out.get(m, 0) + ca * cb
    return {m: c for m, c in out.items() if c != 0}


def _add(a, b, sign=1):
    out = dict(a)
    for m, c in b.items():
        out[m] = out.get(m, 0) + sign * c
    return {m: c for m, c in out.items() if c != 0}


def poly_of(e) -> Optional[Dict[Mono, Fraction]]:
    if isinstance(e, ast.Constant) and isinstance(e.value, int) and not isinstance(e.value, bool):
        return {(): Fraction(e.value)} if e.value != 0 else {}
    if isinstance(e, ast.Name):
        return {((e.id, 1),): Fraction(1)}
    if isinstance(e, ast.UnaryOp) and isinstance(e.op, ast.USub):
        p = poly_of(e.operand)
        return None if p is None else {m: -c for m, c in p.items()}
    if isinstance(e, ast.BinOp):
        l, r = poly_of(e.left), poly_of(e.right)
        if l is None or r is None:
            return None
        if isinstance(e.op, ast.Add):
            return _add(l, r)
        if isinstance(e.op, ast.Sub):
            return _add(l, r, -1)
        if isinstance(e.op, ast.Mult):
            return _mul(l, r)
        if isinstance(e.op, (ast.FloorDiv, ast.Div)) and list(r.keys()) == [()] and r[()] != 0:
            return {m: c / r[()] for m, c in l.items()}
        return None
    if isinstance(e, ast.Call) and isinstance(e.func, ast.Name) and e.func.id == 'int' and len(e.args) == 1:
        return poly_of(e.args[0])
    return None


def match_condensed(p: Dict[Mono, Fraction]) -> Optional[Tuple[str, str, str]]:
    """-> (i, j, n) if p is the condensed index of pair (i, j) in an n x n matrix"""
    sq = [m for m in p if len(m) == 1 and m[0][1] == 2]
    if len(sq) != 1 or p[sq[0]] != Fraction(-1, 2):
        return None
    i = sq[0][0][0]
    prods = [m for m in p if len(m) == 2 and all(k == 1 for _, k in m) and i in dict(m)]
    if len(prods) != 1 or p[prods[0]] != 1:
        return None
    n = [v for v, _ in prods[0] if v != i][0]
    lin = {m[0][0]: c for m, c in p.items() if len(m) == 1 and m[0][1] == 1}
    if lin.get(i) != Fraction(-3, 2):
        return None
    others = {v: c for v, c in lin.items() if v != i}
    if len(others) != 1 or list(others.values()) != [Fraction(1)]:
        return None
    j = next(iter(others))
    if p.get((), 0) != -1 or len(p) != 5:
        return None
    return i, j, n


def _order_state(r, name_node: ast.Name, role: int, depth=0) -> str:
    """'ordered' / 'unordered' / '?' for the variable used as first (role 0) / second (role 1) member of the pair"""
    ids = r.load_defs.get(id(name_node), ())
    if not ids or depth > 3:
        return '?'
    states = set()
    for i in ids:
        d = r.defs[i]
        node = d.node
        if d.kind == 'for':
            it = getattr(node, 'iter', None)
            if isinstance(it, ast.Call) and isinstance(it.func, (ast.Name, ast.Attribute)):
                leaf = it.func.attr if isinstance(it.func, ast.Attribute) else it.func.id
                if leaf == 'combinations':
                    states.add('ordered')
                    continue
                if leaf == 'range' and role == 1 and len(it.args) >= 2:
                    # for j in range(i + 1, n)
                    states.add('ordered' if isinstance(it.args[0], ast.BinOp) and isinstance(it.args[0].op, ast.Add) else '?')
                    continue
                if leaf == 'range' and role == 0:
                    states.add('ordered')
                    continue
                if leaf == 'zip' and all(isinstance(a, ast.Call) or isinstance(a, ast.Starred) for a in it.args):
                    inner = [a.value if isinstance(a, ast.Starred) else a for a in it.args]
                    if any(isinstance(x, ast.Call) and (x.func.attr if isinstance(x.func, ast.Attribute) else getattr(x.func, 'id', '')) == 'triu_indices'
                           for x in inner):
                        states.add('ordered')
                        continue
            states.add('?')
            continue
        if d.kind != 'assign' or not isinstance(node, ast.Assign):
            states.add('?')
            continue
        v = node.value
        tgt = node.targets[0]
        comp = v
        if isinstance(tgt, (ast.Tuple, ast.List)):
            k = [ix for ix, t in enumerate(tgt.elts) if isinstance(t, ast.Name) and t.id == name_node.id]
            if isinstance(v, (ast.Tuple, ast.List)) and k and k[0] < len(v.elts):
                comp = v.elts[k[0]]
            elif isinstance(v, ast.Call):
                leaf = v.func.attr if isinstance(v.func, ast.Attribute) else getattr(v.func, 'id', '')
                states.add('ordered' if leaf == 'triu_indices' else '?')
                continue
            elif isinstance(v, ast.GeneratorExp) or isinstance(v, ast.ListComp):
                # (idx[ix] for ix in np.triu_indices(..)): every member is gathered through idx
                elt = v.elt
                src = v.generators[0].iter
                leaf = src.func.attr if isinstance(src, ast.Call) and isinstance(src.func, ast.Attribute) else ''
                if isinstance(elt, ast.Subscript) and leaf == 'triu_indices':
                    states.add('unordered')
                elif leaf == 'triu_indices' and isinstance(elt, ast.Name):
                    states.add('ordered')
                else:
                    states.add('?')
                continue
            else:
                states.add('?')
                continue
        if isinstance(comp, ast.Call):
            leaf = comp.func.attr if isinstance(comp.func, ast.Attribute) else getattr(comp.func, 'id', '')
            if leaf in ('minimum', 'min') and role == 0:
                states.add('ordered')
            elif leaf in ('maximum', 'max') and role == 1:
                states.add('ordered')
            else:
                states.add('?')
        elif isinstance(comp, ast.Subscript) and isinstance(comp.slice, ast.Name):
            # gather through an index array: idx[row] - ordered only if idx is monotone, which nothing here says
            inner = _order_state(r, comp.slice, role, depth + 1)
            states.add('unordered' if inner == 'ordered' else '?')
        elif isinstance(comp, ast.Name):
            states.add(_order_state(r, comp, role, depth + 1))
        else:
            states.add('?')
    if states == {'ordered'}:
        return 'ordered'
    if 'unordered' in states:
        return 'unordered'
    return '?'


def condensed_index(ctx, obs, prefixes, in_scope, rule='CONDENSED') -> int:
    prog = ctx.prog
    n = 0
    for q, f in sorted(prog.functions.items()):
        if not in_scope(q, prefixes):
            continue
        seen = set()
        for e in ast.walk(f.node):
            if not isinstance(e, ast.BinOp) or id(e) in seen:
                continue
            p = poly_of(e)
            m = match_condensed(p) if p else None
            if m is None:
                continue
            for x in ast.walk(e):
                seen.add(id(x))
            i, j, nn = m
            r = ctx.dep.result(q)
            ni = next((x for x in ast.walk(e) if isinstance(x, ast.Name) and x.id == i), None)
            nj = next((x for x in ast.walk(e) if isinstance(x, ast.Name) and x.id == j), None)
            si, sj = _order_state(r, ni, 0), _order_state(r, nj, 1)
            n += 1
            con = f'the condensed index `{norm(e)[:60]}` is used for ordered pairs ({i} < {j}) only'
            if si == 'ordered' and sj == 'ordered':
                obs.ok(rule, q, con, '', where(prog, f, e))
            elif 'unordered' in (si, sj):
                obs.bad(rule, q, con, f'`{i}` / `{j}` come from an ordered pair that was re-mapped through an index array: for {i} > {j} the '
                        f'formula addresses a different entry of the vector form (values land under another pair of conditions)',
                        where(prog, f, e))
            else:
                obs.unk(rule, q, con, f'order of `{i}`, `{j}` not established ({si}, {sj})', where(prog, f, e))
    return n


# ---------------------------------------------------------------------------------------------------- HALF-FILLED
_ALLOC = {'zeros', 'empty', 'full', 'ones', 'zeros_like', 'empty_like', 'full_like'}
_SORTED_MAKERS = {'sort', 'arange', 'unique', 'nonzero', 'flatnonzero', 'where', 'argwhere', 'range', 'sorted', 'cumsum'}
_UNSORTED_MAKERS = {'argsort', 'permutation', 'randint', 'choice', 'shuffle', 'index', 'lexsort', 'integers'}


def half_filled_lookup(ctx, obs, prefixes, in_scope, rule='HALF-FILLED') -> int:
    """A look-up matrix that is written on ONE triangle only (`M[np.triu_indices(n, 1)] = np.arange(..)`: the position of pair (i, j)
    in the vector form) answers for ordered pairs i < j.  Reading it with arbitrary index arrays - `M[np.ix_(p, p)]`, `M[a][:, b]`,
    `M[a, b]` - reaches the triangle that was never written whenever the indices are not ascending: the read returns the fill value
    (position 0) instead of the pair's position.  Ordered index (np.sort / np.arange / np.unique / np.nonzero ...) -> ok; an index that
    is a parameter, a permutation, an argsort or built with list.index -> violation; otherwise undecided.  A matrix that is
    symmetrised after the fill (`M + M.T`, `M.T[..] = ..`, a second fill of the other triangle) is complete and not restricted."""
    prog = ctx.prog
    n = 0
    for q, f in sorted(prog.functions.items()):
        if not in_scope(q, prefixes):
            continue
        local = {}
        for s in ast.walk(f.node):
            if isinstance(s, ast.Assign) and len(s.targets) == 1 and isinstance(s.targets[0], ast.Name):
                local.setdefault(s.targets[0].id, []).append(s.value)

        def leaf(fn):
            return fn.attr if isinstance(fn, ast.Attribute) else (fn.id if isinstance(fn, ast.Name) else '')

        def is_triu(e, depth=0):
            if isinstance(e, ast.Call) and leaf(e.func) in ('triu_indices', 'triu_indices_from'):
                return True
            if isinstance(e, ast.Name) and depth < 3 and len(local.get(e.id, [])) == 1:
                return is_triu(local[e.id][0], depth + 1)
            return False
        cands = {v for v, vals in local.items() if len(vals) == 1 and isinstance(vals[0], ast.Call) and leaf(vals[0].func) in _ALLOC}
        for m in sorted(cands):
            stores = [s for s in ast.walk(f.node) if isinstance(s, (ast.Assign, ast.AugAssign))
                      for t in (s.targets if isinstance(s, ast.Assign) else [s.target])
                      if isinstance(t, ast.Subscript) and isinstance(t.value, ast.Name) and t.value.id == m]
            if not stores:
                continue
            tg = [t for s in stores for t in (s.targets if isinstance(s, ast.Assign) else [s.target]) if isinstance(t, ast.Subscript)]
            if not all(is_triu(t.slice) for t in tg):
                continue
            # symmetrised / completed afterwards?
            complete = False
            for x in ast.walk(f.node):
                if isinstance(x, ast.Attribute) and x.attr == 'T' and isinstance(x.value, ast.Name) and x.value.id == m:
                    complete = True
                if isinstance(x, ast.Call) and leaf(x.func) in ('tril_indices', 'tril_indices_from', 'transpose', 'maximum', 'squareform') \
                        and any(isinstance(y, ast.Name) and y.id == m for y in ast.walk(x)):
                    complete = True
            if complete:
                continue
            reads = [x for x in ast.walk(f.node) if isinstance(x, ast.Subscript) and isinstance(x.ctx, ast.Load)
                     and isinstance(x.value, ast.Name) and x.value.id == m and not is_triu(x.slice)]
            for rd in reads:
                idx = []
                sl = rd.slice
                if isinstance(sl, ast.Call) and leaf(sl.func) == 'ix_':
                    idx = list(sl.args)
                elif isinstance(sl, ast.Tuple):
                    idx = [e for e in sl.elts if not isinstance(e, ast.Slice)]
                else:
                    idx = [sl]
                if not idx or all(isinstance(e, ast.Constant) for e in idx):
                    continue
                n += 1

                def order(e, depth=0):
                    if isinstance(e, ast.Call):
                        lf = leaf(e.func)
                        if lf in _SORTED_MAKERS:
                            return 'sorted'
                        if lf in _UNSORTED_MAKERS:
                            return 'unsorted'
                        if lf in ('array', 'asarray', 'list', 'tuple') and e.args:
                            return order(e.args[0], depth + 1)
                        return 'unknown'
                    if isinstance(e, (ast.ListComp, ast.GeneratorExp)):
                        return order(e.elt, depth + 1)
                    if isinstance(e, ast.Subscript):
                        return order(e.value, depth + 1) if isinstance(e.slice, ast.Constant) else 'unknown'
                    if isinstance(e, ast.Name):
                        if e.id in f.params:
                            return 'unsorted'          # whatever the caller passes
                        vals = local.get(e.id, [])
                        if depth < 4 and vals:
                            os_ = {order(v, depth + 1) for v in vals}
                            if os_ == {'sorted'}:
                                return 'sorted'
                            if 'unsorted' in os_:
                                return 'unsorted'
                        return 'unknown'
                    return 'unknown'
                states = [order(e) for e in idx]
                con = f'the look-up `{norm(rd)[:50]}` into the half-filled matrix `{m}` uses ascending indices only'
                if all(s == 'sorted' for s in states):
                    obs.ok(rule, q, con, '', where(prog, f, rd))
                elif 'unsorted' in states:
                    obs.bad(rule, q, con, f'`{m}` is written on the upper triangle only (`{norm(stores[0])[:60]}`), and `{norm(rd)[:60]}` reads it with '
                            f'indices that are not ascending in general: for a pair in descending order the entry of the unwritten triangle '
                            f'(the fill value) is returned', where(prog, f, rd))
                else:
                    obs.unk(rule, q, con, f'order of the index arrays not established ({states})', where(prog, f, rd))
    return n
