"""AXIS - axis-role inference for numeric kernels.

Every array is abstracted to a tuple of *roles*, one per axis: an opaque symbol declared for the kernel's inputs
('A' = RDMs of the first stack, 'B' = RDMs of the second stack, 'P' = dissimilarity pairs ...), '1' (broadcast axis) or
'?' (unknown).  Roles are propagated through einsum signatures, @, .T, reductions with axis=, reshape((-1,1)),
[:, None], np.outer, zeros((n, m)), boolean-mask indexing, elementwise arithmetic with numpy broadcasting and through
calls to sibling kernels with a declared contract.  A *definite* clash (two different declared roles meeting on one
aligned axis, a result whose roles are not the declared ones) is a violation; anything unknown is never an alarm.
"""
from __future__ import annotations
import ast
from dataclasses import dataclass, field
from typing import Dict, List, Optional, Tuple

from ..flow import FuncResult
from .common import norm, where

Roles = Optional[Tuple[str, ...]]


@dataclass
class Contract:
    params: Dict[str, Tuple[str, ...]]          # declared roles of (some) parameters
    ret: Optional[Tuple[str, ...]] = None       # declared roles of the return value
    ret_comps: Optional[List[Optional[Tuple[str, ...]]]] = None  # for tuple returns


ELEMENTWISE = {'sqrt', 'abs', 'log', 'exp', 'square', 'nan_to_num', 'isnan', 'isfinite', 'logical_not', 'sign',
               'asarray', 'array', 'copy', 'float64', 'astype', 'maximum', 'minimum', 'negative', 'cumsum', 'real', 'ppf', 'cdf',
               'tanh', 'arctanh', 'log1p', 'expm1', 'clip', 'round', 'floor', 'ceil'}
REDUCERS = {'sum', 'mean', 'nansum', 'nanmean', 'std', 'nanstd', 'var', 'nanvar', 'min', 'max', 'nanmin', 'nanmax',
            'all', 'any', 'prod', 'median', 'nanmedian'}


def _leaf(fn):
    if isinstance(fn, ast.Attribute):
        return fn.attr
    if isinstance(fn, ast.Name):
        return fn.id
    return ''


def is_def(r: str) -> bool:
    return r not in ('?', '1')


class AxisEval:
    def __init__(self, ctx, q: str, contracts: Dict[str, Contract], res: Optional[FuncResult] = None,
                 method_roles: Optional[Dict[str, Tuple[str, ...]]] = None, size_roles: Optional[Dict[object, str]] = None):
        self.method_roles = method_roles or {}      # roles of `<anything>.name()` (argument-less accessor methods)
        self.size_roles = size_roles or {}          # extent -> role: parameter names (`n_cv`) and integer literals (2) used as sizes
        self.ctx = ctx
        self.prog = ctx.prog
        self.q = q
        self.f = ctx.prog.func(q)
        self.res = res or ctx.dep.result(q)
        self.contracts = contracts
        self.me = contracts.get(q)
        self.clashes: List[Tuple[ast.AST, str]] = []
        self._memo: Dict[int, Roles] = {}
        self._active = set()
        self.evaluated = 0
        self._for_targets = self._collect_for_targets()

    # ------------------------------------------------------------------
    def clash(self, node, msg):
        key = (getattr(node, 'lineno', 0), msg)
        if all((getattr(n, 'lineno', 0), m) != key for n, m in self.clashes):
            self.clashes.append((node, msg))

    def _collect_for_targets(self):
        out = {}
        for n in ast.walk(self.f.node):
            if isinstance(n, ast.For):
                out[id(n)] = n
        return out

    # -- definitions
    def _defs_of(self, name: ast.Name):
        ids = self.res.load_defs.get(id(name))
        if not ids:
            return []
        return [self.res.defs[i] for i in ids]

    def _merge(self, a: Roles, b: Roles) -> Roles:
        if a is None:
            return b
        if b is None:
            return a
        if len(a) != len(b):
            return None
        out = []
        for x, y in zip(a, b):
            if x == y:
                out.append(x)
            elif x == '?':
                out.append(y)
            elif y == '?':
                out.append(x)
            else:
                out.append('?')
        return tuple(out)

    def def_roles(self, d, var: str, depth: int) -> Roles:
        key = (d.did, var)
        if key in self._active or depth > 30:
            return None
        self._active.add(key)
        try:
            return self._def_roles(d, var, depth)
        finally:
            self._active.discard(key)

    def _def_roles(self, d, var, depth) -> Roles:
        if d.kind == 'param':
            return self.me.params.get(var) if self.me else None
        node = d.node
        if d.kind == 'assign' and isinstance(node, (ast.Assign, ast.AnnAssign)):
            tgt = node.targets[0] if isinstance(node, ast.Assign) else node.target
            if isinstance(tgt, (ast.Tuple, ast.List)):
                k = None
                for i, t in enumerate(tgt.elts):
                    if isinstance(t, ast.Name) and t.id == var:
                        k = i
                if k is None:
                    return None
                rhs = node.value
                if isinstance(rhs, ast.Call):
                    c = self._contract_of_call(rhs)
                    if c and c.ret_comps and k < len(c.ret_comps):
                        return self._subst_ret(c, rhs, c.ret_comps[k], depth)
                    if _leaf(rhs.func) == 'shape':
                        return ()
                if isinstance(rhs, ast.Attribute) and rhs.attr == 'shape':
                    return ()
                if isinstance(rhs, (ast.Tuple, ast.List)) and len(rhs.elts) == len(tgt.elts):
                    return self.roles(rhs.elts[k], depth + 1)
                return None
            return self.roles(node.value, depth + 1)
        if d.kind == 'aug' and isinstance(node, ast.AugAssign):
            prev = self.res.aug_prev.get(d.did, frozenset())
            out = None
            for pid in prev:
                out = self._merge(out, self.def_roles(self.res.defs[pid], var, depth + 1))
            return out
        if d.kind == 'for' and isinstance(node, ast.For):
            return self._for_target_roles(node, var, depth)
        return None

    def _for_target_roles(self, node: ast.For, var: str, depth) -> Roles:
        it, tgt = node.iter, node.target
        if isinstance(it, ast.Call) and isinstance(it.func, ast.Name) and it.func.id == 'enumerate' and it.args \
                and isinstance(tgt, ast.Tuple) and len(tgt.elts) == 2:
            src = self.roles(it.args[0], depth + 1)
            if isinstance(tgt.elts[0], ast.Name) and tgt.elts[0].id == var:
                return ('#' + src[0],) if src else None
            if isinstance(tgt.elts[1], ast.Name) and tgt.elts[1].id == var:
                return tuple(src[1:]) if src else None
            return None
        if isinstance(it, ast.Call) and isinstance(it.func, ast.Name) and it.func.id == 'range' and len(it.args) == 1 \
                and isinstance(tgt, ast.Name) and tgt.id == var:
            sz = self.size_role(it.args[0], depth + 1)
            return ('#' + sz,) if sz else None
        if isinstance(tgt, ast.Name) and tgt.id == var:
            src = self.roles(it, depth + 1)
            return tuple(src[1:]) if src else None
        return None

    def size_role(self, e: ast.expr, depth=0) -> Optional[str]:
        """role whose extent the integer expression e is (X.shape[k], len(X)); None if unknown"""
        if isinstance(e, ast.Subscript) and isinstance(e.value, ast.Attribute) and e.value.attr == 'shape' \
                and isinstance(e.slice, ast.Constant) and isinstance(e.slice.value, int):
            r = self.roles(e.value.value, depth + 1)
            if r and -len(r) <= e.slice.value < len(r) and is_def(r[e.slice.value]):
                return r[e.slice.value]
            return None
        if isinstance(e, ast.Call) and isinstance(e.func, ast.Name) and e.func.id == 'len' and e.args:
            r = self.roles(e.args[0], depth + 1)
            return r[0] if r and is_def(r[0]) else None
        if isinstance(e, ast.Constant) and isinstance(e.value, int) and e.value in self.size_roles:
            return self.size_roles[e.value]
        if isinstance(e, ast.Name) and e.id in self.size_roles and all(d.kind == 'param' for d in self._defs_of(e)):
            return self.size_roles[e.id]
        if isinstance(e, ast.Name):
            out = None
            for d in self._defs_of(e):
                if d.kind == 'assign' and isinstance(d.node, ast.Assign):
                    tgt = d.node.targets[0]
                    if isinstance(tgt, ast.Name):
                        s = self.size_role(d.node.value, depth + 1)
                    elif isinstance(tgt, (ast.Tuple, ast.List)) and isinstance(d.node.value, ast.Attribute) \
                            and d.node.value.attr == 'shape':
                        r = self.roles(d.node.value.value, depth + 1)
                        k = [i for i, t in enumerate(tgt.elts) if isinstance(t, ast.Name) and t.id == e.id]
                        s = r[k[0]] if r and k and k[0] < len(r) and is_def(r[k[0]]) else None
                    else:
                        s = None
                    if s is None:
                        return None
                    if out is not None and out != s:
                        return None
                    out = s
                else:
                    return None
            return out
        return None

    # -- contracts
    def _contract_of_call(self, call: ast.Call) -> Optional[Contract]:
        r = self.prog.resolve_expr_static(self.prog.module_of(self.f), call.func, self.f)
        if r and r.startswith('func:') and r[5:] in self.contracts:
            return self.contracts[r[5:]]
        return None

    def _callee_of_call(self, call: ast.Call) -> Optional[str]:
        r = self.prog.resolve_expr_static(self.prog.module_of(self.f), call.func, self.f)
        return r[5:] if r and r.startswith('func:') else None

    def _bind_roles(self, c: Contract, call: ast.Call, depth) -> Dict[str, str]:
        """unify declared parameter roles with the actual argument roles -> {declared role: actual role}"""
        q = self._callee_of_call(call)
        fi = self.prog.functions[q]
        pos = fi.pos_params
        actual: Dict[str, ast.expr] = {}
        for i, a in enumerate(call.args):
            if i < len(pos) and not isinstance(a, ast.Starred):
                actual[pos[i]] = a
        for kw in call.keywords:
            if kw.arg:
                actual[kw.arg] = kw.value
        env: Dict[str, str] = {}
        for p, decl in c.params.items():
            if p not in actual:
                continue
            ar = self.roles(actual[p], depth + 1)
            if ar is None or len(ar) != len(decl):
                continue
            for dr, xr in zip(decl, ar):
                if not is_def(dr) or not is_def(xr):
                    continue
                if dr in env and env[dr] != xr:
                    self.clash(call, f'call `{norm(call)[:80]}`: declared axis {dr} of {q.split(".")[-1]} is bound to '
                                     f'both {env[dr]} and {xr}')
                else:
                    env[dr] = xr
        return env

    def _subst_ret(self, c: Contract, call: ast.Call, ret: Optional[Tuple[str, ...]], depth) -> Roles:
        if ret is None:
            return None
        if not c.params:
            return tuple(ret)
        env = self._bind_roles(c, call, depth)
        # a declared role that stays unbound is local to the callee (e.g. an extended pair axis): unknown here
        return tuple(env.get(r, '?') if is_def(r) else r for r in ret)

    # -- the evaluator
    def roles(self, e: ast.expr, depth=0) -> Roles:
        if depth > 40:
            return None
        k = id(e)
        if k in self._memo:
            return self._memo[k]
        self._memo[k] = None
        self.evaluated += 1
        r = self._roles(e, depth)
        self._memo[k] = r
        return r

    def _roles(self, e, depth) -> Roles:
        if isinstance(e, ast.Constant):
            return () if isinstance(e.value, (int, float, complex, bool)) else None
        if isinstance(e, ast.Name):
            out = None
            defs = self._defs_of(e)
            if not defs:
                return None
            for d in defs:
                r = self.def_roles(d, e.id, depth + 1)
                if r is None:
                    return None
                if out is not None and len(out) != len(r):
                    return None
                out = self._merge(out, r)
            return out
        if isinstance(e, ast.Attribute):
            if e.attr == 'T':
                r = self.roles(e.value, depth + 1)
                return tuple(reversed(r)) if r else None
            if e.attr in ('size', 'ndim'):
                return ()
            return None
        if isinstance(e, ast.UnaryOp):
            return self.roles(e.operand, depth + 1)
        if isinstance(e, ast.Compare) and len(e.comparators) == 1:
            return self._broadcast(e, self.roles(e.left, depth + 1), self.roles(e.comparators[0], depth + 1))
        if isinstance(e, ast.BinOp):
            l, r = self.roles(e.left, depth + 1), self.roles(e.right, depth + 1)
            if isinstance(e.op, ast.MatMult):
                return self._matmul(e, l, r)
            return self._broadcast(e, l, r)
        if isinstance(e, ast.Subscript):
            return self._subscript(e, depth)
        if isinstance(e, ast.Call):
            return self._call(e, depth)
        if isinstance(e, ast.ListComp) and len(e.generators) == 1:
            g = e.generators[0]
            first = None
            if isinstance(g.iter, ast.Call) and isinstance(g.iter.func, ast.Name) and g.iter.func.id == 'range' \
                    and len(g.iter.args) == 1:
                first = self.size_role(g.iter.args[0], depth + 1)
            else:
                src = self.roles(g.iter, depth + 1)
                first = src[0] if src and is_def(src[0]) else None
            return (first or '?', '?') if first else None
        if isinstance(e, ast.IfExp):
            return self._merge(self.roles(e.body, depth + 1), self.roles(e.orelse, depth + 1))
        return None

    def _broadcast(self, node, l: Roles, r: Roles) -> Roles:
        if l is None or r is None:
            # scalar on the unknown side cannot be assumed
            return None
        if len(l) == 0:
            return r
        if len(r) == 0:
            return l
        if l and l[0].startswith('#') or r and r[0].startswith('#'):
            return ()
        n = max(len(l), len(r))
        la = ('1',) * (n - len(l)) + tuple(l)
        ra = ('1',) * (n - len(r)) + tuple(r)
        out = []
        for i, (x, y) in enumerate(zip(la, ra)):
            if x == y:
                out.append(x)
            elif x == '1':
                out.append(y)
            elif y == '1':
                out.append(x)
            elif x == '?' or y == '?':
                out.append(x if y == '?' else y)
            else:
                self.clash(node, f'`{norm(node)[:100]}`: axis {i} carries role {x} on the left operand and role {y} on '
                                 f'the right operand (elementwise operation pairs entries of different kinds)')
                out.append('?')
        return tuple(out)

    def _matmul(self, node, l: Roles, r: Roles) -> Roles:
        if l is None or r is None or len(l) == 0 or len(r) == 0:
            return None
        lc = l[-1]
        rc = r[-2] if len(r) >= 2 else r[0]
        if is_def(lc) and is_def(rc) and lc != rc:
            self.clash(node, f'`{norm(node)[:100]}`: matrix product contracts axis of role {lc} with axis of role {rc}')
        if len(l) == 1 and len(r) == 1:
            return ()
        if len(r) == 1:
            return tuple(l[:-1])
        if len(l) == 1:
            return tuple(r[:-2]) + (r[-1],)
        return tuple(l[:-1]) + (r[-1],)

    def _subscript(self, e: ast.Subscript, depth) -> Roles:
        base = self.roles(e.value, depth + 1)
        if base is None:
            if isinstance(e.value, ast.Attribute) and e.value.attr == 'shape':
                return ()
            return None
        idx = e.slice
        items = list(idx.elts) if isinstance(idx, ast.Tuple) else [idx]
        out = []
        ax = 0
        for it in items:
            if isinstance(it, ast.Constant) and it.value is None:
                out.append('1')
                continue
            if ax >= len(base):
                return None
            if isinstance(it, ast.Slice):
                out.append(base[ax])
            elif isinstance(it, ast.Constant) and isinstance(it.value, int):
                pass
            else:
                ir = self.roles(it, depth + 1)
                if ir is not None and len(ir) == 1 and ir[0].startswith('#'):
                    # integer index drawn from a role: must index an axis of that role
                    want = ir[0][1:]
                    if is_def(base[ax]) and is_def(want) and base[ax] != want:
                        self.clash(e, f'`{norm(e)[:80]}`: axis {ax} of role {base[ax]} is indexed by a counter over '
                                      f'role {want}')
                elif ir is not None and len(ir) == 0:
                    pass
                elif ir is not None and len(ir) == 1:
                    # mask / index array along this axis keeps the role (sub-role)
                    if is_def(base[ax]) and is_def(ir[0]) and base[ax] != ir[0]:
                        self.clash(e, f'`{norm(e)[:80]}`: axis {ax} of role {base[ax]} is selected by a mask over '
                                      f'role {ir[0]}')
                    out.append(base[ax])
                elif ir is not None and len(ir) == len(base) and ax == 0 and len(items) == 1:
                    return ('?',)
                else:
                    out.append(base[ax] if ir is None else '?')
                    if ir is None:
                        # unknown index kind: integer (drops) or array (keeps): rank unknown
                        return None
            ax += 1
        out += list(base[ax:])
        return tuple(out)

    def _axis_arg(self, call: ast.Call, pos: int) -> Tuple[bool, Optional[int], bool]:
        """-> (given, axis value or None if not constant, keepdims)"""
        axis = None
        given = False
        keep = False
        if len(call.args) > pos:
            a = call.args[pos]
            given = True
            axis = a.value if isinstance(a, ast.Constant) and isinstance(a.value, int) else None
            if isinstance(a, ast.UnaryOp) and isinstance(a.op, ast.USub) and isinstance(a.operand, ast.Constant):
                axis = -a.operand.value
        for kw in call.keywords:
            if kw.arg == 'axis':
                given = True
                a = kw.value
                axis = a.value if isinstance(a, ast.Constant) and isinstance(a.value, int) else None
                if isinstance(a, ast.UnaryOp) and isinstance(a.op, ast.USub) and isinstance(a.operand, ast.Constant):
                    axis = -a.operand.value
                if isinstance(a, ast.Constant) and a.value is None:
                    given = False
            if kw.arg == 'keepdims':
                keep = isinstance(kw.value, ast.Constant) and bool(kw.value.value)
        return given, axis, keep

    def _reduce(self, src: Roles, given, axis, keep) -> Roles:
        if src is None:
            return None
        if not given:
            return ()
        if axis is None or not (-len(src) <= axis < len(src)):
            return None
        axis %= len(src)
        if keep:
            return tuple('1' if i == axis else r for i, r in enumerate(src))
        return tuple(r for i, r in enumerate(src) if i != axis)

    def _call(self, e: ast.Call, depth) -> Roles:
        fn = e.func
        nm = _leaf(fn)
        c = self._contract_of_call(e)
        if c is not None:
            if c.ret is not None:
                return self._subst_ret(c, e, c.ret, depth)
            self._bind_roles(c, e, depth)
            return None
        is_np = isinstance(fn, ast.Attribute) and isinstance(fn.value, ast.Name) and fn.value.id in ('np', 'numpy')
        is_method = isinstance(fn, ast.Attribute) and not is_np
        if is_method and nm in self.method_roles and not e.args and not e.keywords:
            return tuple(self.method_roles[nm])
        if nm == 'einsum' and e.args and isinstance(e.args[0], ast.Constant) and isinstance(e.args[0].value, str):
            return self._einsum(e, depth)
        if nm in REDUCERS:
            if is_method:
                src = self.roles(fn.value, depth + 1)
                g, ax, keep = self._axis_arg(e, 0)
            else:
                src = self.roles(e.args[0], depth + 1) if e.args else None
                g, ax, keep = self._axis_arg(e, 1)
            return self._reduce(src, g, ax, keep)
        if nm == 'reshape':
            if is_method:
                src = self.roles(fn.value, depth + 1)
                shp = e.args[0].elts if len(e.args) == 1 and isinstance(e.args[0], (ast.Tuple, ast.List)) else e.args
            else:
                src = self.roles(e.args[0], depth + 1) if e.args else None
                shp = e.args[1].elts if len(e.args) > 1 and isinstance(e.args[1], (ast.Tuple, ast.List)) else e.args[1:]
            vals = [_int_const(x) for x in shp]
            if src is not None and len(src) == 1 and len(vals) == 2:
                if vals[1] == 1 and vals[0] != 1:
                    return (src[0], '1')
                if vals[0] == 1 and vals[1] != 1:
                    return ('1', src[0])
            if src is not None and len(src) == 2 and len(vals) == 2 and vals[1] == -1:
                # x[mask].reshape(x.shape[0], -1): first axis restored
                fr = self.size_role(shp[0], depth + 1)
                return (fr or '?', '?')
            return None
        if nm in ELEMENTWISE and (e.args or is_method):
            return self.roles(fn.value if is_method and not e.args or (is_method and nm in ('astype', 'clip', 'round')) else e.args[0], depth + 1)
        if nm == 'apply_along_axis' and len(e.args) >= 3:
            return self.roles(e.args[2], depth + 1)
        if nm == 'outer' and len(e.args) == 2:
            a, b = self.roles(e.args[0], depth + 1), self.roles(e.args[1], depth + 1)
            if a and b and len(a) == 1 and len(b) == 1:
                return (a[0], b[0])
            return None
        if nm in ('zeros', 'ones', 'empty', 'full') and e.args:
            shp = e.args[0]
            elts = shp.elts if isinstance(shp, (ast.Tuple, ast.List)) else [shp]
            return tuple(self.size_role(x, depth + 1) or '?' for x in elts)
        if nm in ('uniform', 'normal', 'standard_normal', 'random', 'random_sample', 'integers', 'randint', 'choice'):
            sz = next((k.value for k in e.keywords if k.arg == 'size'), None)
            if isinstance(sz, (ast.Tuple, ast.List)):
                return tuple(self.size_role(x, depth + 1) or '?' for x in sz.elts)
            return None
        if nm in ('zeros_like', 'ones_like', 'empty_like') and e.args:
            return self.roles(e.args[0], depth + 1)
        if nm == 'transpose' and (e.args or is_method):
            src = self.roles(fn.value if is_method else e.args[0], depth + 1)
            if src and len(src) == 2 and len(e.args) <= (0 if is_method else 1):
                return tuple(reversed(src))
            axes_arg = e.args[0] if is_method and e.args else (e.args[1] if not is_method and len(e.args) > 1 else None)
            if src and isinstance(axes_arg, (ast.Tuple, ast.List)):
                perm = [_int_const(x) for x in axes_arg.elts]
                if all(p is not None and 0 <= p < len(src) for p in perm) and len(perm) == len(src):
                    return tuple(src[p] for p in perm)
            return None
        if nm == 'dot' and len(e.args) == 2 and not is_method:
            return self._matmul(e, self.roles(e.args[0], depth + 1), self.roles(e.args[1], depth + 1))
        if nm == 'expand_dims' and len(e.args) == 2:
            src = self.roles(e.args[0], depth + 1)
            k = _int_const(e.args[1])
            if src is not None and k is not None and 0 <= k <= len(src):
                return tuple(src[:k]) + ('1',) + tuple(src[k:])
            return None
        if nm in ('concatenate', 'vstack') and e.args and isinstance(e.args[0], (ast.List, ast.Tuple)) and len(e.args[0].elts) >= 2:
            g, ax, _ = self._axis_arg(e, 1)
            ax = 0 if (not g or nm == 'vstack') else ax
            parts = [self.roles(x, depth + 1) for x in e.args[0].elts]
            if ax is None or any(p is None for p in parts):
                return None
            ranks = {len(p) for p in parts}
            if len(ranks) > 1 and nm == 'concatenate':
                self.clash(e, f'`{norm(e)[:100]}`: arrays of rank {sorted(ranks)} are concatenated (numpy raises: all inputs must have '
                              f'the same number of dimensions)')
                return None
            if len(ranks) > 1:
                return None
            n = len(parts[0])
            if not (-n <= ax < n):
                return None
            ax %= n
            out = []
            for i in range(n):
                if i == ax:
                    out.append('?')
                    continue
                rs = {p[i] for p in parts if is_def(p[i])}
                if len(rs) > 1:
                    self.clash(e, f'`{norm(e)[:100]}`: axis {i} has roles {sorted(rs)} in the concatenated arrays')
                out.append(next(iter(rs)) if len(rs) == 1 else '?')
            return tuple(out)
        if nm in ('diag', 'diagonal') and (e.args or is_method):
            src = self.roles(fn.value if is_method else e.args[0], depth + 1)
            if src is not None and len(src) == 2:
                return (src[0],) if src[0] == src[1] else ('?',)
            if src is not None and len(src) == 1 and nm == 'diag':
                return (src[0], src[0])
            return None
        if nm == 'len':
            return ()
        # a function without a typing rule: its arguments are still typed (clashes inside them are clashes)
        for a in list(e.args) + [k.value for k in e.keywords]:
            if not isinstance(a, ast.Starred):
                self.roles(a, depth + 1)
        return None

    def _einsum(self, e: ast.Call, depth) -> Roles:
        spec = e.args[0].value.replace(' ', '')
        if '.' in spec:
            return None
        if '->' not in spec:
            # implicit mode: the output carries, in alphabetical order, the letters that occur exactly once
            flat = spec.replace(',', '')
            spec = spec + '->' + ''.join(sorted(ch for ch in set(flat) if flat.count(ch) == 1))
        ins, out = spec.split('->')
        ins = ins.split(',')
        ops = e.args[1:]
        if len(ins) != len(ops):
            return None
        letters: Dict[str, str] = {}
        for sub, op in zip(ins, ops):
            r = self.roles(op, depth + 1)
            if r is None or len(r) != len(sub):
                continue
            for ch, role in zip(sub, r):
                if not is_def(role):
                    continue
                if ch in letters and letters[ch] != role:
                    self.clash(e, f'`{norm(e)[:100]}`: einsum index `{ch}` runs over role {letters[ch]} in one operand '
                                  f'and over role {role} in another')
                else:
                    letters[ch] = role
        return tuple(letters.get(ch, '?') for ch in out)

    # ------------------------------------------------------------------
    def check_function(self, obs, rule: str, expected_ret: Optional[Tuple[str, ...]] = None):
        """evaluate every statement (collecting clashes) and compare the return roles with the declaration"""
        prog = self.prog
        f = self.f
        n_stmt = 0
        for s in ast.walk(f.node):
            if isinstance(s, (ast.Assign, ast.AnnAssign)) and getattr(s, 'value', None) is not None:
                n_stmt += 1
                vr = self.roles(s.value)
                tg = s.targets if isinstance(s, ast.Assign) else [s.target]
                for t in tg:
                    if isinstance(t, ast.Subscript) and not isinstance(t.slice, (ast.Tuple, ast.Slice, ast.Constant)):
                        # a[mask] = values with a full-rank boolean mask: the mask must be laid out like the target
                        ar, mr = self.roles(t.value), self.roles(t.slice)
                        if ar is not None and mr is not None and len(ar) == len(mr) and len(ar) >= 2:
                            self._broadcast(s, ar, mr)
                            continue
                    if isinstance(t, ast.Subscript):
                        tr = self._subscript(ast.Subscript(value=t.value, slice=t.slice, ctx=ast.Load(),
                                                           lineno=t.lineno, col_offset=t.col_offset), 0)
                        if tr is not None and vr is not None and len(vr) <= len(tr):
                            self._broadcast(s, tr, vr)
                for t in tg:
                    # x.shape = (a, b): an in-place reshape - the new extents must be the extents x has
                    if isinstance(t, ast.Attribute) and t.attr == 'shape' and isinstance(s.value, (ast.Tuple, ast.List)):
                        cur = self.roles(t.value)
                        if cur is None and isinstance(t.value, ast.Name):
                            # the base of an attribute store is not a recorded load: take the assignment that immediately precedes
                            # in the same block
                            for blk in ast.walk(f.node):
                                for fld in ('body', 'orelse', 'finalbody'):
                                    seq = getattr(blk, fld, None)
                                    if isinstance(seq, list) and s in seq:
                                        prev = [x for x in seq[:seq.index(s)] if isinstance(x, ast.Assign) and isinstance(x.targets[0], ast.Name)
                                                and x.targets[0].id == t.value.id]
                                        if prev:
                                            cur = self.roles(prev[-1].value)
                        new = [self.size_role(x) if not (isinstance(x, ast.Constant) and x.value == 1) else '1' for x in s.value.elts]
                        if cur is not None and all(is_def(r) for r in cur) and all(r is not None for r in new):
                            have = sorted(r for r in cur if r != '1')
                            want = sorted(r for r in new if r != '1')
                            if have != want:
                                self.clash(s, f'`{norm(s)[:90]}`: `{norm(t.value)[:30]}` has axes ({", ".join(cur)}), the shape assigned to it '
                                              f'has extents of ({", ".join(new)}): the sizes only agree by coincidence')
            elif isinstance(s, ast.AugAssign):
                n_stmt += 1
                if isinstance(s.target, ast.Name):
                    tr = None
                    did = None
                    for d in self.res.defs.values():
                        if d.node is s:
                            did = d
                    if did is not None:
                        tr = self.def_roles(did, s.target.id, 0)
                    vr = self.roles(s.value)
                    if tr is not None and vr is not None:
                        out = self._broadcast(s, tr, vr)
                        if out is not None and len(vr) > len(tr):
                            self.clash(s, f'`{norm(s)[:100]}`: in-place operation would change the rank of the target')
            elif isinstance(s, ast.Expr) and isinstance(s.value, ast.Call):
                n_stmt += 1
                c = s.value
                if _leaf(c.func) == 'putmask' and len(c.args) == 3:
                    a, m, v = (self.roles(x) for x in c.args)
                    if a is not None and m is not None:
                        self._broadcast(c, a, m)
                else:
                    self.roles(c)
        rets = []
        for node, _, _ in self.res.returns:
            if node is None or node.value is None:
                continue
            rr = self.roles(node.value)
            rets.append((node, rr))
        for node, msg in self.clashes:
            obs.bad(rule, self.q, _stable(msg), msg, where(prog, f, node))
        if expected_ret is not None:
            for node, rr in rets:
                con = f'result has axes ({", ".join(expected_ret)})'
                if rr is None or any(not is_def(x) for x in rr) or len(rr) != len(expected_ret):
                    if rr is not None and len(rr) == len(expected_ret) and \
                            all((not is_def(x)) or x == y for x, y in zip(rr, expected_ret)):
                        obs.unk(rule, self.q, con, f'roles of `{norm(node.value)[:60]}` only partly known: {rr}')
                    elif rr is None:
                        obs.unk(rule, self.q, con, f'roles of `{norm(node.value)[:60]}` not computable')
                    else:
                        obs.bad(rule, self.q, con, f'`return {norm(node.value)[:60]}` has axes {rr}, declared '
                                f'({", ".join(expected_ret)}): entry (i, j) does not pair RDM i of the first with RDM j '
                                f'of the second stack', where(prog, f, node))
                else:
                    obs.check(tuple(rr) == tuple(expected_ret), rule, self.q, con,
                              f'`return {norm(node.value)[:60]}` has axes ({", ".join(rr)}), declared '
                              f'({", ".join(expected_ret)}): the result is transposed / pairs the wrong stacks',
                              f'axes ({", ".join(rr)})', where(prog, f, node))
        if not self.clashes:
            obs.ok(rule, self.q, f'no role clash in {n_stmt} statements', f'{self.evaluated} expressions typed')
        return n_stmt


def _int_const(x) -> Optional[int]:
    if isinstance(x, ast.Constant) and isinstance(x.value, int):
        return x.value
    if isinstance(x, ast.UnaryOp) and isinstance(x.op, ast.USub) and isinstance(x.operand, ast.Constant):
        return -x.operand.value
    return None


def _stable(msg: str) -> str:
    """construct key of a clash: the message without the quoted source (stable under renaming of locals)"""
    import re
    return re.sub(r'`[^`]*`: ', '', msg)[:160]
