"""Package-wide sweeps (rule instances are discovered from the function table, exceptions are frozen in contracts/sweeps.json):

  FWD-default  at a call to a repo function g from f, when f has a parameter p and g has a parameter of the same name with a
               default, and the call passes nothing in that slot, the caller's p is silently replaced by g's default.
               Accepted idioms: the call sits in the arm of `if p is None` and g's default for p is None; something else is
               passed explicitly (a different rule's business); `*args/**kwargs` calls.
  PAR-live     every parameter of a function influences something: the returned value, a mutation, an argument or the control
               of a call, or a raise.  Auto-exempt: stub bodies (docstring + raise/pass/constant return), parameters of
               methods that belong to an override family (the interface fixes the signature).
"""
from __future__ import annotations
import ast
import json
import os
from typing import Dict, Iterable, List, Optional, Sequence, Tuple

from ..flow import depends_on_param
from ..model import AnalysisError
from .common import source_order, bound_args, norm, where

_HERE = os.path.dirname(os.path.dirname(os.path.dirname(os.path.abspath(__file__))))
SKIP = ('vis.', 'test.', 'io.petnames', 'util.vis_utils')


def load_exceptions():
    with open(os.path.join(_HERE, 'contracts', 'sweeps.json')) as fh:
        return json.load(fh)


def _in_scope(q: str, prefixes: Sequence[str]) -> bool:
    return q.startswith(tuple(prefixes)) and not q.startswith(SKIP)


def _guarded_by_none(fnode: ast.AST, call: ast.Call, p: str) -> bool:
    """the call lies in the body of `if p is None:` (or the else of `if p is not None`)"""
    for n in ast.walk(fnode):
        if isinstance(n, ast.If) and isinstance(n.test, ast.Compare) and len(n.test.ops) == 1 \
                and isinstance(n.test.left, ast.Name) and n.test.left.id == p \
                and isinstance(n.test.comparators[0], ast.Constant) and n.test.comparators[0].value is None:
            arm = n.body if isinstance(n.test.ops[0], ast.Is) else (n.orelse if isinstance(n.test.ops[0], ast.IsNot) else [])
            if any(x is call for s in arm for x in ast.walk(s)):
                return True
    return False


def _default_of(fi, p: str) -> Tuple[bool, Optional[ast.expr]]:
    a = fi.node.args
    pos = a.posonlyargs + a.args
    d = a.defaults
    off = len(pos) - len(d)
    for i, x in enumerate(pos):
        if x.arg == p:
            return (i >= off, d[i - off] if i >= off else None)
    for x, dv in zip(a.kwonlyargs, a.kw_defaults):
        if x.arg == p:
            return (dv is not None, dv)
    return (False, None)


def fwd_default(ctx, obs, prefixes: Sequence[str], rule='FWD-default') -> int:
    prog = ctx.prog
    exc = {(x['caller'], x['callee'], x['param']): x['reason'] for x in load_exceptions().get('fwd_default', [])}
    for k, v in exc.items():
        if k[0].startswith(tuple(prefixes)):
            obs.exceptions.append(f'{rule} {k[0]} -> {k[1]} `{k[2]}`: {v}')
    n = 0
    for q, f in sorted(prog.functions.items()):
        if not _in_scope(q, prefixes):
            continue
        r = ctx.dep.result(q)
        if r is None:
            continue
        for c in r.calls:
            if len(c.callees) != 1:
                continue
            g = c.callees[0]
            gi = prog.functions.get(g)
            if gi is None or any(k in ('*', '**') for k, _ in c.args):
                continue
            b = bound_args(prog, g, c)
            for p in f.params:
                if p in ('self', 'cls') or p not in gi.params or p in b:
                    continue
                has_default, dflt = _default_of(gi, p)
                if not has_default:
                    continue   # a missing required argument is a TypeError, not a silent default
                n += 1
                con = f'`{p}` reaches {g} (the call does not fall back on the callee default)'
                if (q, g, p) in exc:
                    obs.ok(rule, q, con, 'exception: ' + exc[(q, g, p)], where(prog, f, c.node))
                    continue
                if isinstance(dflt, ast.Constant) and dflt.value is None and _guarded_by_none(f.node, c.node, p):
                    obs.ok(rule, q, con, f'call is in the `{p} is None` arm and the callee default is None', where(prog, f, c.node))
                    continue
                obs.bad(rule, q, con,
                        f'`{norm(c.node)[:110]}` passes nothing for `{p}`: {g.split(".")[-1]} uses its default '
                        f'`{norm(dflt) if dflt is not None else "?"}` and the caller\'s `{p}` is silently dropped', where(prog, f, c.node))
    # calls to NEW private helpers were inlined before the analysis (sa/inline.py): the parameters they left at the helper's default
    # are recorded there; a default taken for a name the calling function itself has as a parameter drops the caller's option
    for mname, m in prog.modules.items():
        for owner, helper, dflt, line, text in getattr(m.tree, '_inline_defaulted', []):
            cands = [q for q, f in prog.functions.items() if q.startswith(mname + '.') and f.name == owner and _in_scope(q, prefixes)]
            for q in cands:
                f = prog.functions[q]
                for p in dflt:
                    if p in f.params and p not in ('self', 'cls'):
                        n += 1
                        obs.bad(rule, q, f'`{p}` reaches the helper {helper} (the call does not fall back on the helper default)',
                                f'`{text}` (line {line}) passes nothing for `{p}`: the helper uses its default and the caller\'s `{p}` is '
                                f'silently dropped', where(prog, f, f.node))
    return n


def _is_stub(fnode: ast.FunctionDef) -> bool:
    body = list(fnode.body)
    if body and isinstance(body[0], ast.Expr) and isinstance(body[0].value, ast.Constant) and isinstance(body[0].value.value, str):
        body = body[1:]
    if not body:
        return True
    for s in body:
        if isinstance(s, (ast.Pass, ast.Raise)):
            continue
        if isinstance(s, ast.Return) and (s.value is None or isinstance(s.value, ast.Constant)):
            continue
        if isinstance(s, ast.Expr) and isinstance(s.value, ast.Constant):
            continue
        return False
    return True


def _override_family(prog, fi) -> bool:
    """method defined under the same name in another class of the same hierarchy (base or subclass)"""
    if not fi.cls:
        return False
    mine = prog.classes[fi.cls]
    mro = set(prog.mro(fi.cls))
    for cq, ci in prog.classes.items():
        if cq == fi.cls or fi.name not in ci.methods:
            continue
        if cq in mro or fi.cls in prog.mro(cq):
            return True
    return False


def _meant_to_matter(ctx, q, f, p) -> str:
    """evidence that the parameter carries a user's choice: it is documented in the docstring, or some call in the package passes
    a non-constant value for it"""
    import re
    doc = ast.get_docstring(f.node) or ''
    if re.search(r'(^|\n)\s*' + re.escape(p) + r'\s*(\(|:)', doc):
        return 'documented in the docstring'
    cache = getattr(ctx, '_passers', None)
    if cache is None:
        cache = {}
        for cq in ctx.prog.functions:
            if cq.startswith(SKIP):
                continue
            r = ctx.dep.result(cq)
            if r is None:
                continue
            for c in r.calls:
                for g in c.callees:
                    gi = ctx.prog.functions.get(g)
                    if gi is None or any(k in ('*', '**') for k, _ in c.args):
                        continue
                    for name, (expr, _) in bound_args(ctx.prog, g, c).items():
                        if expr is not None and not isinstance(expr, ast.Constant):
                            cache.setdefault((g, name), cq)
        ctx._passers = cache
    if (q, p) in cache:
        return f'passed by {cache[(q, p)]}'
    loads = [n for n in ast.walk(f.node) if isinstance(n, ast.Name) and n.id == p and isinstance(n.ctx, ast.Load)]
    if loads:
        return f'read at line {loads[0].lineno}, but everything computed from it is discarded'
    return ''


def par_live(ctx, obs, prefixes: Sequence[str], rule='PAR-live') -> int:
    prog = ctx.prog
    exc = {(x['function'], x['param']): x['reason'] for x in load_exceptions().get('par_live', [])}
    for k, v in exc.items():
        if k[0].startswith(tuple(prefixes)):
            obs.exceptions.append(f'{rule} {k[0]} `{k[1]}`: {v}')
    n = 0
    for q, f in sorted(prog.functions.items()):
        if not _in_scope(q, prefixes):
            continue
        r = ctx.dep.result(q)
        if r is None:
            continue
        stub = _is_stub(f.node)
        fam = None
        # a private module-level function that is not in the frozen table of the pinned tree is a helper introduced by a later
        # change (extraction, uniform signatures for a dispatch table): its parameters are implementation details of its callers
        from ..inline import frozen_functions
        modname = q.rsplit('.', 1)[0]
        if f.cls is None and f.parent is None and f.name.startswith('_') and modname in frozen_functions() \
                and f.name not in frozen_functions()[modname]:
            continue
        if f.parent is not None:
            # a nested function (closure, the inner functions of a decorator): what its parameters are for is its enclosing
            # function's business; pinned nested functions are covered through the functions that call them
            root = f.parent.split('.<locals>')[0]
            rmod, rname = root.rsplit('.', 1)
            if rmod in frozen_functions() and rname not in frozen_functions()[rmod]:
                continue
        for p in f.params:
            if p in ('self', 'cls') or p.startswith('_'):
                continue
            if f.node.args.vararg and f.node.args.vararg.arg == p or f.node.args.kwarg and f.node.args.kwarg.arg == p:
                continue
            n += 1
            con = f'parameter `{p}` influences the result or an effect'
            live = depends_on_param(r.ret, p) or p in r.mut or any(depends_on_param(m, p) for m in r.mut.values()) \
                or any(depends_on_param(m, p) for m in r.self_fields.values())
            if not live:
                for c in r.calls:
                    if any(depends_on_param(v, p) for _, v in c.args) or depends_on_param(c.ctl, p) or depends_on_param(c.recv, p):
                        live = True
                        break
            if not live:
                live = any(depends_on_param(t, p) for _, t, _ in r.raises) or any(depends_on_param(v, p) or depends_on_param(ct, p)
                                                                                   for _, _, v, ct in r.stores)
            if live:
                obs.ok(rule, q, con, '', where(prog, f, f.node))
                continue
            if (q, p) in exc:
                obs.ok(rule, q, con, 'exception: ' + exc[(q, p)], where(prog, f, f.node))
                continue
            if stub:
                obs.ok(rule, q, con, 'stub body (interface declaration)', where(prog, f, f.node))
                continue
            if fam is None:
                fam = _override_family(prog, f)
            if fam:
                obs.ok(rule, q, con, 'signature fixed by the overridden interface', where(prog, f, f.node))
                continue
            why = _meant_to_matter(ctx, q, f, p)
            if why:
                obs.bad(rule, q, con, f'no returned value, mutation, call argument, call guard or raise of {q} depends on `{p}` '
                        f'({why}): the option is accepted and ignored', where(prog, f, f.node))
            else:
                obs.unk(rule, q, con, f'`{p}` is unused, but it is neither documented nor passed by any caller: an unused '
                        f'parameter alone breaks nothing', where(prog, f, f.node))
    return n


# which modules' functions are swept under which property (callers; each module belongs to the property whose behaviour it
# implements - a dropped option there breaks that property's "the option the user passed is the one in force" premise)
PROPERTY_SCOPE: Dict[str, List[str]] = {
    'C01': ['rdm.calc.', 'rdm.combine.from_partials'],
    'C02': ['rdm.calc.calc_rdm_crossnobis', 'rdm.calc.calc_rdm_poisson_cv', 'rdm.calc._calc_rdm_crossnobis_single',
            'rdm.calc._gen_default_cv_descriptor'],
    'C03': ['rdm.compare.', 'util.matrix.row_col', 'util.matrix._row_col', 'util.matrix.pairwise_contrast_sparse'],
    'C04': ['inference.evaluate.'],
    'C05': ['inference.crossvalsets.'],
    'C06': ['util.inference_util.'],
    'C07': ['inference.noise_ceiling.', 'util.pooling.'],
    'C08': ['model.', 'util.pooling.', 'util.matrix.get_v'],
    'C09': ['inference.bootstrap.', 'inference.boot_testset.'],
    'C10': ['rdm.rdms.', 'util.descriptor_utils.', 'util.rdm_utils.', 'rdm.combine.from_partials', 'rdm.pairs.'],
    'C11': ['data.base.', 'data.dataset.', 'data.ops.', 'util.data_utils.', 'data.computations.'],
    'C13': ['rdm.combine.'],
    'C14': ['data.noise.'],
    'C15': ['rdm.calc_unbalanced.'],
    'C16': ['io.hdf5.', 'io.pkl.', 'util.file_io.', 'inference.result.'],
    'C17': ['rdm.transform.'],
    'C18': ['simulation.', 'util.matrix.indicator', 'util.matrix.pairwise_contrast'],
    'C19': ['util.searchlight.'],
    'C20': ['io.bids.', 'io.spm.', 'io.fmriprep.', 'io.mne.', 'io.meadows.', 'io.optional.', 'io.pandas.', 'util.build_rdm.'],
}


# the selection / grouping helpers on the call path of the property (TOL and LOST-STORE sweeps)
EXTRA_SELECT_SCOPE: Dict[str, List[str]] = {
    'C01': ['data.dataset.', 'data.computations.', 'util.data_utils.', 'util.descriptor_utils.', 'util.build_rdm.', 'util.rdm_utils.'],
    'C02': ['util.descriptor_utils.', 'data.dataset.Dataset.subset_obs', 'util.data_utils.', 'data.computations.'],
    'C04': ['rdm.rdms.RDMs.subsample', 'rdm.rdms.RDMs.subset', 'util.descriptor_utils.'],
    'C05': ['util.descriptor_utils.', 'rdm.rdms.RDMs.subsample', 'rdm.rdms.RDMs.subset'],
    'C07': ['inference.crossvalsets.sets_leave_one_out_rdm', 'util.inference_util.pool_rdm', 'util.inference_util._nan'],
    'C09': ['rdm.rdms.RDMs.subsample', 'util.descriptor_utils.'],
    'C14': ['data.dataset.Dataset.get_measurements_tensor', 'util.data_utils.'],
    'C15': ['util.data_utils.', 'util.matrix.row_col', 'util.matrix._row_col'],
    'C17': ['rdm.compare._sort_and_rank', 'rdm.compare._tau_a', 'rdm.compare._kendall_tau', 'rdm.compare.compare_kendall'],
    'C19': ['util.descriptor_utils.'],
}


# helper modules whose buffers feed the property's values
EXTRA_DTYPE_SCOPE: Dict[str, List[str]] = {
    'C01': ['data.computations.', 'util.build_rdm.'],
    'C02': ['data.computations.'],
    'C07': ['util.pooling.', 'util.inference_util._nan'],
    'C11': ['data.computations.'],
}


def run(ctx, obs, prop: str):
    pre = PROPERTY_SCOPE.get(prop)
    if not pre:
        return
    a = fwd_default(ctx, obs, pre)
    b = par_live(ctx, obs, pre)
    obs.analysed['sweep_dtype_buffers'] = dtype_inherit(ctx, obs, pre + EXTRA_DTYPE_SCOPE.get(prop, []))
    obs.analysed['sweep_inplace_div'] = inplace_division(ctx, obs, pre)
    obs.analysed['sweep_sorted_arg'] = sorted_argument(ctx, obs, pre)
    obs.analysed['sweep_loop_state'] = loop_state(ctx, obs, pre)
    obs.analysed['sweep_loop_carry'] = loop_carry(ctx, obs, pre)
    obs.analysed['sweep_loop_shadow'] = loop_shadow(ctx, obs, pre)
    obs.analysed['sweep_or_defaults'] = or_default_on_table(ctx, obs, pre)
    obs.analysed['sweep_late_binding'] = late_binding(ctx, obs, pre)
    obs.analysed['sweep_name_keyed_memos'] = name_keyed_memo(ctx, obs, pre)
    obs.analysed['sweep_stale_defaults'] = stale_default(ctx, obs, pre)
    obs.analysed['sweep_lossy_guards'] = lossy_guard(ctx, obs, pre + EXTRA_SELECT_SCOPE.get(prop, []))
    obs.analysed['sweep_triangular_solves'] = triangular_solve(ctx, obs, pre)
    # C15: a pair without a valid product is NaN by contract, so the values combined after the compiled kernel may be NaN and a
    # dense 0/1 indicator product would spread one NaN over all pairs; elsewhere the indicator products act on NaN-free vectors
    # only where missing measurements (NaN) are legal input of the functions in scope: datasets (C01, C02, C11, C14, C15)
    if prop in ('C01', 'C02', 'C11', 'C14', 'C15'):
        obs.analysed['sweep_mask_weight'] = mask_as_weight(ctx, obs, pre + EXTRA_SELECT_SCOPE.get(prop, []),
                                                           indicator_helpers=INDICATOR_HELPERS if prop == 'C15' else ())
    obs.analysed['sweep_run_lengths'] = run_lengths(ctx, obs, pre + EXTRA_SELECT_SCOPE.get(prop, []))
    sel = pre + EXTRA_SELECT_SCOPE.get(prop, [])
    obs.analysed['sweep_tolerance_selections'] = tolerance_selection(ctx, obs, sel)
    obs.analysed['sweep_lost_stores'] = lost_store(ctx, obs, sel)
    from .condensed import condensed_index
    obs.analysed['sweep_condensed_indices'] = condensed_index(ctx, obs, sel, _in_scope)
    from .condensed import half_filled_lookup
    obs.analysed['sweep_half_filled_lookups'] = half_filled_lookup(ctx, obs, sel, _in_scope)
    obs.analysed['sweep_fwd_default_sites'] = a
    obs.analysed['sweep_par_live_params'] = b
    if b == 0:
        raise AnalysisError(f'{prop}: the parameter sweep found no function under {pre} (module moved?)')


# --------------------------------------------------------------------------------------------------------- DTYPE
_LIKE = {'zeros_like', 'empty_like', 'ones_like', 'full_like'}
_ALLOC = {'zeros', 'empty', 'ones', 'full'}
_SELECT_ONLY = {'get_vectors', 'get_matrices', 'asarray', 'array', 'copy', 'squeeze', 'ravel', 'reshape', 'flatten', 'transpose', 'take', 'atleast_1d',
                'atleast_2d', 'list', 'tuple'}


def _leafname(fn):
    return fn.attr if isinstance(fn, ast.Attribute) else (fn.id if isinstance(fn, ast.Name) else '')


def _root(e):
    while isinstance(e, (ast.Subscript, ast.Attribute)) or (isinstance(e, ast.Call) and _leafname(e.func) in _SELECT_ONLY):
        if isinstance(e, ast.Call):
            if isinstance(e.func, ast.Attribute) and not (isinstance(e.func.value, ast.Name) and e.func.value.id in ('np', 'numpy')):
                e = e.func.value
            elif e.args:
                e = e.args[0]
            else:
                return None
        else:
            e = e.value
    return e.id if isinstance(e, ast.Name) else None


def dtype_inherit(ctx, obs, prefixes: Sequence[str], rule='DTYPE') -> int:
    """A result buffer that takes its dtype from an input array (`np.zeros_like(x)`, `np.empty(.., dtype=x.dtype)`) may only
    receive elements of that same array.  Storing computed values (counters, means, ranks, distances) into it silently casts
    them to the input's type: integer data truncate means, one-character labels truncate '10' to '1', booleans collapse.
    `np.ones_like(x) * np.nan` and an explicit dtype are not inherited allocations."""
    prog = ctx.prog
    n = 0
    for q, f in sorted(prog.functions.items()):
        if not _in_scope(q, prefixes):
            continue
        allocs = {}
        for s in ast.walk(f.node):
            if not (isinstance(s, ast.Assign) and isinstance(s.targets[0], ast.Name) and isinstance(s.value, ast.Call)):
                continue
            c = s.value
            nm = _leafname(c.func)
            dt = next((k.value for k in c.keywords if k.arg == 'dtype'), None)
            src = None
            if nm in _LIKE and c.args and dt is None:
                src = c.args[0]
            elif nm in _LIKE | _ALLOC and dt is not None and isinstance(dt, ast.Attribute) and dt.attr == 'dtype':
                src = dt.value
            elif nm == 'copy' and dt is None and isinstance(c.func, ast.Attribute) and not c.args \
                    and not (isinstance(c.func.value, ast.Name) and c.func.value.id in ('np', 'numpy', 'copy')):
                src = c.func.value            # x.copy(): same dtype as x
            elif nm == 'copy' and dt is None and c.args and isinstance(c.func, ast.Attribute) and isinstance(c.func.value, ast.Name) \
                    and c.func.value.id in ('np', 'numpy'):
                src = c.args[0]
            if src is None:
                continue
            r = _root(src)
            if r is None:
                continue
            allocs[s.targets[0].id] = (s, src, r, nm == 'copy')
        if not allocs:
            continue
        local = {}
        for s in ast.walk(f.node):
            if isinstance(s, ast.Assign) and isinstance(s.targets[0], ast.Name):
                local.setdefault(s.targets[0].id, []).append(s.value)

        loop_targets = {}
        for s in ast.walk(f.node):
            if isinstance(s, (ast.For, ast.comprehension)):
                it, tg = s.iter, s.target
                if isinstance(it, ast.Call) and _leafname(it.func) == 'enumerate' and it.args and isinstance(tg, ast.Tuple) and len(tg.elts) == 2:
                    it, tg = it.args[0], tg.elts[1]
                if isinstance(tg, ast.Name):
                    loop_targets.setdefault(tg.id, []).append(it)
                else:
                    for x in ast.walk(tg):
                        if isinstance(x, ast.Name):
                            loop_targets.setdefault(x.id, []).append(None)
        opaque = set()       # names bound by something other than a plain assignment / a loop over a known iterable
        for s in ast.walk(f.node):
            if isinstance(s, (ast.With, ast.ExceptHandler, ast.NamedExpr)) or (isinstance(s, ast.Assign) and not isinstance(s.targets[0], ast.Name)):
                for x in ast.walk(s.targets[0] if isinstance(s, ast.Assign) else s):
                    if isinstance(x, ast.Name) and isinstance(x.ctx, ast.Store):
                        opaque.add(x.id)

        def selection_of(v, root, depth=0):
            """v only selects elements of the array rooted at `root` (through indexing, views, locals bound to such, iteration over
            such): True / False / None (the origin of v is not visible: a name bound by unpacking, a with-target ...)"""
            if isinstance(v, ast.Name):
                if v.id == root:
                    return True
                if depth >= 6:
                    return None
                vals = list(local.get(v.id) or [])
                res = [selection_of(x, root, depth + 1) for x in vals]
                for it in loop_targets.get(v.id, []):
                    res.append(None if it is None else selection_of(it, root, depth + 1))   # an element of a selection is a selection
                if v.id in opaque or not res:
                    return None
                if any(r is False for r in res):
                    return False
                return None if any(r is None for r in res) else True
            if isinstance(v, (ast.GeneratorExp, ast.ListComp)):
                return selection_of(v.elt, root, depth + 1)
            if isinstance(v, ast.Constant):
                return False
            rr = v
            if isinstance(rr, (ast.Subscript, ast.Attribute)) or (isinstance(rr, ast.Call) and _leafname(rr.func) in _SELECT_ONLY):
                inner = rr.value if isinstance(rr, (ast.Subscript, ast.Attribute)) else \
                    (rr.func.value if isinstance(rr.func, ast.Attribute) and not (isinstance(rr.func.value, ast.Name) and rr.func.value.id in ('np', 'numpy'))
                     else (rr.args[0] if rr.args else None))
                return inner is not None and selection_of(inner, root, depth)
            if isinstance(rr, (ast.BinOp, ast.UnaryOp, ast.Compare, ast.BoolOp, ast.JoinedStr)):
                return False          # arithmetic / logic: a computed value
            if isinstance(rr, ast.Call):
                lf = _leafname(rr.func)
                if lf in _FLOAT_FUNCS or lf in _INHERIT_FUNCS or lf in ('len', 'count_nonzero', 'arange', 'float', 'int', 'round', 'nanmean',
                                                                       'nansum', 'argmax', 'argmin', 'argsort'):
                    return False      # a computing function
                # a function of the package whose result is a NEW object (never its argument or a view of it): a computed value
                cr = next((c_ for c_ in (rdep.calls if rdep is not None else []) if c_.node is rr), None)
                if cr is not None and len(cr.callees) == 1 and cr.callees[0] in prog.functions:
                    try:
                        rs = ctx.heap.summary(cr.callees[0]).ret
                    except Exception:
                        rs = None
                    if rs and all(str(l).startswith('FRESH') for l in rs):
                        return False
                return None           # a call the sweep knows nothing about (a helper, an itertools adaptor): origin not visible
            return None
        rdep = ctx.dep.result(q)

        def defs_of(name_node):
            if rdep is None:
                return [None]
            ids = rdep.load_defs.get(id(name_node))
            if ids is None:
                return [None]
            out = []
            for i in ids:
                d = rdep.defs[i]
                if d.kind == 'param':
                    return None
                out.append(d.rhs if d.kind == 'assign' and isinstance(d.node, ast.Assign) and isinstance(d.node.targets[0], ast.Name) else None)
            return out
        for name, (st, src, root, is_copy) in sorted(allocs.items()):
            stores = [s for s in ast.walk(f.node) if isinstance(s, (ast.Assign, ast.AugAssign))
                      and isinstance((s.targets[0] if isinstance(s, ast.Assign) else s.target), ast.Subscript)
                      and _root((s.targets[0] if isinstance(s, ast.Assign) else s.target)) == name]
            if not stores:
                continue
            n += 1
            # the source may itself be a local alias of the input (desc = np.asarray(dataset.obs_descriptors[d]))
            roots = {root}
            if is_copy and any(isinstance(s.targets[0].slice if isinstance(s, ast.Assign) else s.target.slice, ast.Constant)
                               and isinstance((s.targets[0].slice if isinstance(s, ast.Assign) else s.target.slice).value, str) for s in stores):
                continue          # a dict copy filled by key
            verdicts = {id(s): [selection_of(s.value, r0) for r0 in roots] for s in stores}
            undecided = [s for s in stores if not any(v is True for v in verdicts[id(s)]) and any(v is None for v in verdicts[id(s)])]
            bad = [s for s in stores if not any(v is True for v in verdicts[id(s)]) and s not in undecided
                   and not (isinstance(s.value, ast.Constant) and isinstance(s, ast.Assign) and s.value.value in (0, 1, False, True))]
            if is_copy:
                # a copy of the input legitimately receives edited values of the same kind; only values that are float whatever the
                # inputs (quotients, means, ranks ...) are certainly cast when the input is integer-typed
                bad = [s for s in bad if isinstance(s, ast.Assign) and _dkind(s.value, defs_of) == 'float']
                if not bad:
                    n -= 1
                    continue
            con = f'buffer `{name}` typed like `{norm(src)[:40]}` only receives elements of that array'
            if not bad and undecided and not is_copy:
                obs.unk(rule, q, con, f'the origin of `{norm(undecided[0].value)[:60]}` stored into the buffer is not visible', where(prog, f, undecided[0]))
            elif not bad:
                obs.ok(rule, q, con, f'`{norm(st)[:70]}`', where(prog, f, st))
            else:
                obs.bad(rule, q, con, f'`{norm(st)[:80]}` takes its dtype from the input, but `{norm(bad[0])[:80]}` stores computed values: '
                        f'they are cast to the input\'s type (integers truncate, short strings clip, booleans collapse)', where(prog, f, bad[0]))
    return n


# ----------------------------------------------------------------------------------------------------- INPLACE-DIV
_FLOAT_FUNCS = {'sqrt', 'mean', 'nanmean', 'std', 'nanstd', 'var', 'nanvar', 'exp', 'log', 'log2', 'log10', 'cg', 'inv', 'pinv',
                'cholesky', 'solve', 'eigh', 'eigvalsh', 'svd', 'lstsq', 'linspace', 'true_divide', 'divide', 'rankdata', 'quantile',
                'nanquantile', 'percentile', 'cov', 'corrcoef', 'average', 'normal', 'rand', 'randn', 'uniform', 'standard_normal',
                'median', 'nanmedian', 'norm', 'cdist', 'pdist', 'squareform', 'float', 'float64', 'ppf', 'cdf', 'pdf', 'tanh', 'arctanh',
                'power', 'reciprocal', 'nan_to_num', 'interp'}
_FLOAT_ALLOC = {'zeros', 'ones', 'empty', 'eye', 'identity', 'full'}
_INHERIT_FUNCS = {'einsum', 'dot', 'matmul', 'sum', 'nansum', 'cumsum', 'array', 'asarray', 'copy', 'reshape', 'concatenate', 'stack',
                  'vstack', 'hstack', 'where', 'abs', 'absolute', 'maximum', 'minimum', 'clip', 'transpose', 'ravel', 'flatten', 'squeeze',
                  'diag', 'outer', 'inner', 'tensordot', 'prod', 'max', 'min', 'amax', 'amin', 'sort', 'take', 'tile', 'repeat', 'c_', 'r_',
                  'expand_dims', 'atleast_2d', 'atleast_1d', 'negative', 'subtract', 'add', 'multiply', 'square'}


def _dkind(e, defs_of, depth=0) -> str:
    """'float' (float whatever the inputs), 'inherit' (dtype follows the inputs: integer inputs give an integer array), 'unknown'"""
    if depth > 8:
        return 'unknown'
    if isinstance(e, ast.Constant):
        return 'float' if isinstance(e.value, float) else ('inherit' if isinstance(e.value, (int, bool)) else 'unknown')
    if isinstance(e, ast.Name):
        ds = defs_of(e)
        if ds is None:
            return 'inherit'      # a parameter
        kinds = {_dkind(d, defs_of, depth + 1) if d is not None else 'unknown' for d in ds}
        if kinds == {'float'}:
            return 'float'
        if 'unknown' in kinds or not kinds:
            return 'unknown'
        return 'inherit'          # at least one reaching definition follows the inputs
    if isinstance(e, ast.BinOp):
        if isinstance(e.op, ast.Div):
            return 'float'
        l, r = _dkind(e.left, defs_of, depth + 1), _dkind(e.right, defs_of, depth + 1)
        if 'float' in (l, r):
            return 'float'
        if 'unknown' in (l, r):
            return 'unknown'
        return 'inherit'
    if isinstance(e, ast.UnaryOp):
        return _dkind(e.operand, defs_of, depth + 1)
    if isinstance(e, (ast.Subscript, ast.Starred)):
        return _dkind(e.value, defs_of, depth + 1)
    if isinstance(e, ast.Attribute):
        if e.attr in ('T', 'real', 'flat'):
            return _dkind(e.value, defs_of, depth + 1)
        return 'unknown'
    if isinstance(e, ast.Call):
        nm = _leafname(e.func)
        dt = next((k.value for k in e.keywords if k.arg == 'dtype'), None)
        if dt is not None:
            t = norm(dt)
            return 'float' if 'float' in t or t in ("'d'", "'f8'") else 'unknown'
        if nm == 'astype' and e.args:
            t = norm(e.args[0])
            return 'float' if 'float' in t else 'unknown'
        if nm in _FLOAT_FUNCS:
            return 'float'
        if nm in _FLOAT_ALLOC and not (isinstance(e.func, ast.Attribute) and not isinstance(e.func.value, ast.Name)):
            return 'float'
        if nm in _INHERIT_FUNCS:
            args = list(e.args)
            if isinstance(e.func, ast.Attribute) and not (isinstance(e.func.value, ast.Name) and e.func.value.id in ('np', 'numpy', 'scipy')):
                args = [e.func.value] + args
            ks = [_dkind(a, defs_of, depth + 1) for a in args if not (isinstance(a, ast.Constant) and isinstance(a.value, str))]
            ks = [k for k in ks if k is not None]
            if 'float' in ks:
                return 'float'
            if 'unknown' in ks or not ks:
                return 'unknown'
            return 'inherit'
        return 'unknown'
    if isinstance(e, (ast.Tuple, ast.List)):
        ks = {_dkind(x, defs_of, depth + 1) for x in e.elts}
        return 'float' if ks == {'float'} else ('unknown' if 'unknown' in ks else 'inherit')
    return 'unknown'


def inplace_division(ctx, obs, prefixes: Sequence[str], rule='INPLACE-DIV') -> int:
    """`x /= y` writes a float quotient back into x: if x is an integer array numpy raises UFuncTypeError ("Cannot cast ufunc
    'divide' output ... to dtype('int64')").  The target must therefore be float whatever the inputs are.  Decided by a dtype-kind
    evaluation of the reaching definitions (`float` / `inherit` / `unknown`); only a definite `inherit` is a violation."""
    prog = ctx.prog
    n = 0
    for q, f in sorted(prog.functions.items()):
        if not _in_scope(q, prefixes):
            continue
        augs = [s for s in ast.walk(f.node) if isinstance(s, ast.AugAssign) and isinstance(s.op, ast.Div)]
        if not augs:
            continue
        r = ctx.dep.result(q)
        if r is None:
            continue
        # a NEW private helper (not in the pinned tree) is not an entry point: the dtype of its parameters is whatever its callers
        # computed, not what a user passes - unknown here, never `inherit`
        from ..check import _is_new_function
        param_kind = 'unknown' if _is_new_function(q) else 'inherit'

        def defs_of(name_node):
            ids = r.load_defs.get(id(name_node))
            if ids is None:
                # not a recorded load (e.g. synthetic): fall back on all definitions of that name
                ids = [i for i, d in r.defs.items() if d.var == name_node.id]
            out = []
            for i in ids:
                d = r.defs[i]
                if d.kind == 'param' and param_kind == 'unknown':
                    out.append(None)
                    continue
                if d.kind == 'param':
                    return None if len(list(ids)) == 1 else out.append(ast.Name(id='__param__', ctx=ast.Load()))
                if d.kind == 'aug':
                    # x op= y keeps the kind of x unless op is a true division
                    if isinstance(d.node, ast.AugAssign) and isinstance(d.node.op, ast.Div):
                        out.append(ast.Constant(value=1.0))
                    else:
                        continue
                elif d.kind == 'assign' and d.rhs is not None and isinstance(d.node, ast.Assign) and isinstance(d.node.targets[0], ast.Name):
                    out.append(d.rhs)
                else:
                    out.append(None)
            return out
        for s in augs:
            t = s.target
            base = t
            while isinstance(base, (ast.Subscript, ast.Attribute)):
                base = base.value
            if not isinstance(base, ast.Name):
                continue
            n += 1
            # the value of the target just before this statement: definitions reaching the augmented assignment
            prev_ids = None
            for i, d in r.defs.items():
                if d.node is s:
                    prev_ids = r.aug_prev.get(i)
            if prev_ids is None:
                probe = [x for x in ast.walk(s.target) if isinstance(x, ast.Name) and x.id == base.id]
                kinds = {_dkind(probe[0], defs_of)} if probe else {'unknown'}
            else:
                kinds = set()
                for i in prev_ids:
                    d = r.defs[i]
                    if d.kind == 'param':
                        kinds.add(param_kind)
                    elif d.kind == 'aug':
                        kinds.add('float' if isinstance(d.node, ast.AugAssign) and isinstance(d.node.op, ast.Div) else 'unknown')
                    elif d.kind == 'assign' and d.rhs is not None and isinstance(d.node, ast.Assign) and isinstance(d.node.targets[0], ast.Name):
                        kinds.add(_dkind(d.rhs, defs_of))
                    else:
                        kinds.add('unknown')
            con = f'the target of `{norm(s)[:50]}` is a float array whatever the input types'
            if kinds == {'float'}:
                obs.ok(rule, q, con, '', where(prog, f, s))
            elif 'inherit' in kinds and 'unknown' not in kinds:
                obs.bad(rule, q, con, f'`{base.id}` takes its dtype from the inputs (built only from dtype-preserving operations on the '
                        f'arguments): for integer-typed RDMs / data the in-place division raises UFuncTypeError instead of returning the '
                        f'value', where(prog, f, s))
            else:
                obs.unk(rule, q, con, f'dtype kind of `{base.id}` not determined', where(prog, f, s))
    return n


# --------------------------------------------------------------------------------------------------- SORTED-ARG
_SORTED_PRODUCERS = {'sort', 'unique', 'sorted', 'arange', 'cumsum', 'linspace', 'union1d', 'intersect1d', 'setdiff1d'}
_NEED_SORTED = {'searchsorted': 0, 'digitize': 1}


def sorted_argument(ctx, obs, prefixes: Sequence[str], rule='SORTED-ARG') -> int:
    """np.searchsorted(a, v) (and np.digitize bins) silently return wrong positions when `a` is not ascending.  Every such call
    needs an argument that is established as sorted on all reaching definitions (np.sort / np.unique / sorted / arange ...);
    a parameter, a first-appearance list (dict.fromkeys, get_unique_unsorted) or an accumulated list is not."""
    prog = ctx.prog
    n = 0
    for q, f in sorted(prog.functions.items()):
        if not _in_scope(q, prefixes):
            continue
        calls = [c for c in ast.walk(f.node) if isinstance(c, ast.Call) and _leafname(c.func) in _NEED_SORTED]
        if not calls:
            continue
        r = ctx.dep.result(q)
        for c in calls:
            k = _NEED_SORTED[_leafname(c.func)]
            args = list(c.args)
            if isinstance(c.func, ast.Attribute) and not (isinstance(c.func.value, ast.Name) and c.func.value.id in ('np', 'numpy')):
                args = [c.func.value] + args
            if len(args) <= k:
                continue
            a = args[k]
            n += 1
            verdict, why = _sortedness(a, r, 0)
            con = f'`{norm(c)[:60]}`: the searched array is ascending'
            if verdict == 'sorted':
                obs.ok(rule, q, con, why, where(prog, f, c))
            elif verdict == 'unsorted':
                obs.bad(rule, q, con, f'`{norm(a)[:40]}` {why}: positions returned for an unsorted array are meaningless (no error is raised)',
                        where(prog, f, c))
            else:
                obs.unk(rule, q, con, why, where(prog, f, c))
    return n


def _sortedness(e, r, depth):
    if depth > 6:
        return 'unknown', 'definition chain too long'
    if isinstance(e, ast.Call):
        nm = _leafname(e.func)
        if nm in _SORTED_PRODUCERS:
            return 'sorted', f'produced by {nm}'
        if nm in ('array', 'asarray', 'list', 'tuple') and e.args:
            return _sortedness(e.args[0], r, depth + 1)
        if nm in ('fromkeys', 'keys', 'get_unique_unsorted'):
            return 'unsorted', 'lists the values in order of first appearance'
        return 'unknown', f'result of {nm}()'
    if isinstance(e, ast.Subscript):
        return _sortedness(e.value, r, depth + 1) if isinstance(e.slice, ast.Constant) else ('unknown', 'indexed')
    if isinstance(e, ast.Name):
        ids = r.load_defs.get(id(e)) if r is not None else None
        if not ids:
            return 'unknown', 'no reaching definition recorded'
        verdicts = []
        for i in ids:
            d = r.defs[i]
            if d.kind == 'param':
                verdicts.append(('unsorted', f'may be the caller\'s `{d.var}` in any order'))
            elif d.kind == 'aug':
                verdicts.append(('unsorted', 'is accumulated with += in input order'))
            elif d.kind == 'assign' and d.rhs is not None and isinstance(d.node, ast.Assign) and isinstance(d.node.targets[0], ast.Name):
                verdicts.append(_sortedness(d.rhs, r, depth + 1))
            else:
                verdicts.append(('unknown', 'definition not analysable'))
        for v in verdicts:
            if v[0] == 'unsorted':
                return v
        if all(v[0] == 'sorted' for v in verdicts):
            return 'sorted', 'all reaching definitions are sorted'
        return 'unknown', 'some reaching definition is not recognisably sorted'
    return 'unknown', 'expression not recognised'


# ------------------------------------------------------------------------------------------------------ LOOP-STATE
_FRESH_ALLOC = {'zeros', 'ones', 'empty', 'full', 'zeros_like', 'ones_like', 'empty_like', 'full_like', 'array', 'eye'}


def loop_state(ctx, obs, prefixes: Sequence[str], rule='LOOP-STATE') -> int:
    """A work array allocated BEFORE a loop, written inside the loop only at positions that depend on the loop variable, and read as
    a whole inside the same loop (passed to a call, returned by a closure defined in the loop) carries the entries written by
    earlier iterations into later ones.  Accepted: arrays read only after the loop (accumulators), arrays re-allocated or fully
    reset inside the loop."""
    prog = ctx.prog
    n = 0
    for q, f in sorted(prog.functions.items()):
        if not _in_scope(q, prefixes) or f.parent is not None:
            continue
        top_allocs = {}
        for s in ast.walk(f.node):
            if isinstance(s, ast.Assign) and isinstance(s.targets[0], ast.Name) and isinstance(s.value, ast.Call) \
                    and _leafname(s.value.func) in _FRESH_ALLOC:
                top_allocs.setdefault(s.targets[0].id, []).append(s)
        if not top_allocs:
            continue
        for lp in [x for x in ast.walk(f.node) if isinstance(x, ast.For)]:
            lvars = {x.id for x in ast.walk(lp.target) if isinstance(x, ast.Name)}
            inside = [x for st in lp.body for x in ast.walk(st)]      # the else-clause runs after the loop
            rebinds = {t.id for x in inside if isinstance(x, (ast.Assign, ast.AnnAssign, ast.AugAssign))
                       for t in (x.targets if isinstance(x, ast.Assign) else [x.target]) if isinstance(t, ast.Name)}
            for name, allocs in top_allocs.items():
                if name in rebinds:
                    continue
                # allocated outside this loop only
                if any(any(a is x for x in inside) for a in allocs):
                    continue
                _so = source_order(f.node)
                if not any(_so.get(id(a), 0) < _so.get(id(lp), 0) for a in allocs):
                    continue
                stores = [s for s in inside if isinstance(s, (ast.Assign, ast.AugAssign))
                          and isinstance((s.targets[0] if isinstance(s, ast.Assign) else s.target), ast.Subscript)
                          and isinstance((s.targets[0] if isinstance(s, ast.Assign) else s.target).value, ast.Name)
                          and (s.targets[0] if isinstance(s, ast.Assign) else s.target).value.id == name]
                if not stores:
                    continue
                tg = [(s.targets[0] if isinstance(s, ast.Assign) else s.target) for s in stores]
                partial = [t for t in tg if any(isinstance(x, ast.Name) and x.id in lvars for x in ast.walk(t.slice))]
                full_reset = [t for t in tg if isinstance(t.slice, ast.Slice) and t.slice.lower is None and t.slice.upper is None] or \
                    [c for c in inside if isinstance(c, ast.Call) and isinstance(c.func, ast.Attribute) and c.func.attr == 'fill'
                     and isinstance(c.func.value, ast.Name) and c.func.value.id == name]
                if not partial or full_reset:
                    continue
                store_bases = {id(t.value) for t in tg}
                whole_reads = [x for x in inside if isinstance(x, ast.Name) and x.id == name and isinstance(x.ctx, ast.Load)
                               and id(x) not in store_bases and not _is_sub_base(x, inside)]
                n += 1
                con = f'`{name}` does not carry entries from one iteration of the loop at line {lp.lineno} into the next'
                if whole_reads:
                    obs.bad(rule, q, con, f'`{name}` is allocated once before the loop (line {allocs[0].lineno}), `{norm(stores[0])[:50]}` writes '
                            f'only the entries of the current iteration, and `{name}` is then used as a whole (line {whole_reads[0].lineno}): '
                            f'entries written by earlier iterations are still set', where(prog, f, whole_reads[0]))
                else:
                    obs.ok(rule, q, con, 'read only element-wise / after the loop', where(prog, f, lp))
    return n


def _is_sub_base(name_node, nodes) -> bool:
    """the Name is the base of a Subscript (element access), not a whole-array use"""
    for x in nodes:
        if isinstance(x, ast.Subscript) and x.value is name_node:
            return True
        if isinstance(x, ast.Attribute) and x.value is name_node and x.attr in ('shape', 'size', 'ndim', 'dtype'):
            return True
    return False


# ------------------------------------------------------------------------------------------------------ LOOP-SHADOW
def loop_shadow(ctx, obs, prefixes: Sequence[str], rule='LOOP-SHADOW') -> int:
    """`for .., v in zip(xs, v)` / `for v in v`: the loop target takes the name of the collection it iterates.  After the first
    pass the name holds an element; when the loop statement runs again (it sits in an enclosing loop) or the collection is read
    after the loop, an element is used where the collection is meant."""
    prog = ctx.prog
    n = 0
    for q, f in sorted(prog.functions.items()):
        if not _in_scope(q, prefixes) or f.parent is not None:
            continue
        loops = [x for x in ast.walk(f.node) if isinstance(x, (ast.For, ast.While))]
        so = source_order(f.node)
        for lp in loops:
            if not isinstance(lp, ast.For):
                continue
            tg = {x.id for x in ast.walk(lp.target) if isinstance(x, ast.Name)}
            rd = {x.id for x in ast.walk(lp.iter) if isinstance(x, ast.Name) and isinstance(x.ctx, ast.Load)}
            both = sorted(tg & rd)
            if not both:
                continue
            n += 1
            v = both[0]
            outer = [o for o in loops if o is not lp and any(lp is y for y in ast.walk(o))]
            later = [x for x in ast.walk(f.node) if isinstance(x, ast.Name) and x.id == v and isinstance(x.ctx, ast.Load)
                     and so.get(id(x), 0) > max(so.get(id(y), 0) for y in ast.walk(lp)) ]
            con = f'the collection `{v}` iterated by the loop at line {lp.lineno} is not replaced by one of its elements'
            # a fresh binding of v before the loop statement in every pass of the enclosing loop makes the shadowing harmless
            rebound = False
            if outer:
                o = outer[-1]
                for st in ast.walk(o):
                    if isinstance(st, ast.Assign) and so.get(id(st), 0) < so.get(id(lp), 0) \
                            and any(isinstance(x, ast.Name) and x.id == v and isinstance(x.ctx, ast.Store) for t in st.targets for x in ast.walk(t)) \
                            and not any(isinstance(x, ast.Name) and x.id == v and isinstance(x.ctx, ast.Load) for x in ast.walk(st.value)):
                        rebound = True
            if (outer and not rebound) or later:
                why = f'the loop runs again inside the loop at line {outer[-1].lineno}' if outer and not rebound else f'`{v}` is read again at line {later[0].lineno}'
                obs.bad(rule, q, con, f'`for {norm(lp.target)} in {norm(lp.iter)[:60]}` binds `{v}` to an element of the collection it iterates, and '
                        f'{why}: from then on `{v}` is a single element', where(prog, f, lp))
            else:
                obs.ok(rule, q, con, 'the name is not used again', where(prog, f, lp))
    return n


# ---------------------------------------------------------------------------------------------------------- RUNLEN
def run_lengths(ctx, obs, prefixes: Sequence[str], rule='RUNLEN') -> int:
    """run lengths by `np.diff(np.nonzero(B)[0])` / `np.diff(np.flatnonzero(B))`: B marks the START of every run and needs a sentinel
    at BOTH ends (`np.r_[True, change, True]`): without the closing one the last run is never counted, without the opening one the
    first is not.  Recognised through single-assignment locals."""
    prog = ctx.prog
    n = 0
    for q, f in sorted(prog.functions.items()):
        if not _in_scope(q, prefixes) or f.parent is not None:
            continue
        local = {}
        for s in ast.walk(f.node):
            if isinstance(s, ast.Assign) and len(s.targets) == 1 and isinstance(s.targets[0], ast.Name):
                local.setdefault(s.targets[0].id, []).append(s.value)

        def res(e, depth=0):
            while depth < 6:
                if isinstance(e, ast.Name) and len(local.get(e.id, [])) == 1:
                    e = local[e.id][0]
                elif isinstance(e, ast.Subscript) and isinstance(e.slice, ast.Constant) and e.slice.value == 0:
                    e = e.value
                elif isinstance(e, ast.Call) and _leafname(e.func) in ('astype', 'asarray', 'array') and (e.args or isinstance(e.func, ast.Attribute)):
                    e = e.func.value if isinstance(e.func, ast.Attribute) and not (isinstance(e.func.value, ast.Name) and e.func.value.id in ('np', 'numpy')) else e.args[0]
                else:
                    break
                depth += 1
            return e
        for c in ast.walk(f.node):
            if not (isinstance(c, ast.Call) and _leafname(c.func) == 'diff' and c.args):
                continue
            a = res(c.args[0])
            if not (isinstance(a, ast.Call) and _leafname(a.func) in ('nonzero', 'flatnonzero', 'where')):
                continue
            inner = a.args[0] if a.args else (a.func.value if isinstance(a.func, ast.Attribute) else None)
            b = res(inner) if inner is not None else None
            if not (isinstance(b, ast.Subscript) and isinstance(b.value, ast.Attribute) and b.value.attr == 'r_' and isinstance(b.slice, ast.Tuple)):
                continue
            elts = b.slice.elts
            first = isinstance(elts[0], ast.Constant) and elts[0].value is True
            last = isinstance(elts[-1], ast.Constant) and elts[-1].value is True
            if not (first or last):
                continue
            n += 1
            con = f'run boundaries `{norm(b)[:50]}` have a sentinel at both ends, so `{norm(c)[:40]}` counts every run'
            if first and last:
                obs.ok(rule, q, con, '', where(prog, f, c))
            else:
                obs.bad(rule, q, con, f'`{norm(b)[:70]}` marks run starts with a sentinel at the {"start" if first else "end"} only: '
                        f'`{norm(c)[:50]}` leaves out the {"last" if first else "first"} run (its length never enters the tie counts)',
                        where(prog, f, c))
    return n


# ------------------------------------------------------------------------------------------------------ LOOP-CARRY
def loop_carry(ctx, obs, prefixes: Sequence[str], rule='LOOP-CARRY') -> int:
    """In a `for` loop over items (datasets, folds, fold pairs, centres), a variable that is updated from its own previous value
    (`v = g(v, ..)`, the update reads the value the SAME statement left in the previous iteration) and is then used inside the loop
    makes the result for item k depend on the items before k.  Accepted: counters (`k += 1`, `k = k + 1`), accumulators that are
    only read after the loop (`total += x[i]`, `names = names + [..]`), and in-place container growth (`lst.append`).  The
    reaching definitions come from the dependence engine, so an update that is preceded by a fresh per-iteration definition is
    not loop-carried."""
    prog = ctx.prog
    n = 0
    for q, f in sorted(prog.functions.items()):
        if not _in_scope(q, prefixes) or f.parent is not None:
            continue
        loops = [x for x in ast.walk(f.node) if isinstance(x, ast.For)]
        if not loops:
            continue
        r = ctx.dep.result(q)
        if r is None:
            continue
        for lp in loops:
            inside = [x for st in lp.body for x in ast.walk(st)]
            # a loop over ITEMS reads its loop variable; `for _ in range(n_iter)` (fixed-point / restart iterations) is an
            # algorithm whose whole point is the carried state
            lvars = {x.id for x in ast.walk(lp.target) if isinstance(x, ast.Name)}
            if not any(isinstance(x, ast.Name) and isinstance(x.ctx, ast.Load) and x.id in lvars for x in inside):
                continue
            n += 1
            found = None
            for st in inside:
                if isinstance(st, ast.AugAssign) and isinstance(st.target, ast.Name):
                    v, rhs, self_loads = st.target.id, st.value, None
                elif isinstance(st, ast.Assign) and len(st.targets) == 1 and isinstance(st.targets[0], ast.Name):
                    v, rhs = st.targets[0].id, st.value
                    self_loads = [x for x in ast.walk(rhs) if isinstance(x, ast.Name) and x.id == v]
                    if not self_loads:
                        continue
                else:
                    continue
                # the statement's own definition reaches its own read: carried around the loop
                if self_loads is not None:
                    own = [d for x in self_loads for d in r.load_defs.get(id(x), ()) if r.defs[d].node is st]
                    if not own:
                        continue
                else:
                    # augmented assignment: carried when no other definition inside this loop comes first in every iteration; the
                    # engine's reaching definitions of later reads decide; approximated by "defined before the loop only"
                    others = [y for y in inside if isinstance(y, ast.Name) and y.id == v and isinstance(y.ctx, ast.Store) and y is not st.target]
                    others += [y for y in ast.walk(lp.target) if isinstance(y, ast.Name) and y.id == v]
                    if others:
                        continue
                # counters
                if _is_counter_update(st, v):
                    continue
                # used inside the loop other than in its own update
                other_reads = [x for x in inside if isinstance(x, ast.Name) and x.id == v and isinstance(x.ctx, ast.Load)
                               and not any(x is y for y in ast.walk(st))]
                if not other_reads:
                    continue            # an accumulator, read after the loop
                # only the nearest enclosing loop of the statement is charged
                inner = [l2 for l2 in loops if l2 is not lp and any(l2 is y for y in inside) and any(st is y for y in ast.walk(l2))]
                if inner:
                    continue
                found = (st, v, other_reads[0])
                break
            con = f'the loop at line {lp.lineno} computes each item from that item alone (no value carried over from earlier iterations)'
            if found:
                st, v, use = found
                obs.bad(rule, q, con, f'`{norm(st)[:90]}` builds `{v}` from the value the previous iteration left in it, and `{v}` is used '
                        f'in the same loop (line {use.lineno}): the result for an item depends on the items processed before it',
                        where(prog, f, st))
            else:
                obs.ok(rule, q, con, '', where(prog, f, lp))
    return n


def _is_counter_update(st, v) -> bool:
    def const(e):
        return isinstance(e, ast.Constant) and isinstance(e.value, (int, float)) or \
            (isinstance(e, ast.UnaryOp) and isinstance(e.operand, ast.Constant))
    if isinstance(st, ast.AugAssign):
        return isinstance(st.op, (ast.Add, ast.Sub)) and (const(st.value) or not any(isinstance(x, (ast.Subscript, ast.Call)) for x in ast.walk(st.value)))
    e = st.value
    if isinstance(e, ast.BinOp) and isinstance(e.op, (ast.Add, ast.Sub)):
        a, b = e.left, e.right

        def scalar(x):
            return not any(isinstance(y, (ast.Subscript, ast.Call)) for y in ast.walk(x))
        if isinstance(a, ast.Name) and a.id == v and scalar(b):
            return True
        if isinstance(b, ast.Name) and b.id == v and scalar(a):
            return True
    return False


# ------------------------------------------------------------------------------------------------------------- TOL
_TOL_FUNCS = {'isclose', 'allclose'}
_MASK_CONSUMERS = {'where', 'nonzero', 'flatnonzero', 'argwhere', 'compress', 'extract', 'cumsum', 'count_nonzero', 'sum', 'any', 'all'}


def tolerance_selection(ctx, obs, prefixes, rule='TOL') -> int:
    """Which observation belongs to which condition / fold / time bin, which RDM to which group, which values are tied: all of that is
    decided by EQUALITY of labels and values throughout the package (==, np.isin, np.unique).  A tolerance comparison
    (np.isclose / allclose / math.isclose: |a - b| <= atol + rtol * |b|) is not an equivalence relation and its default rtol merges
    neighbouring values of magnitude 1e5 and more (sample indices, ms time stamps, subject ids) - used to SELECT or GROUP data it
    attaches observations to the wrong label.  Sweep: every tolerance call whose result (directly or through locals) is used as an
    index / mask, is fed to where / nonzero / cumsum, or is returned as the result of the function, is a violation; a tolerance call
    that only feeds an `if` / assert (a numerical sanity decision) is noted as undecided."""
    prog = ctx.prog
    n = 0
    for q, f in sorted(prog.functions.items()):
        if not _in_scope(q, prefixes):
            continue
        calls = [c for c in ast.walk(f.node) if isinstance(c, ast.Call) and _leafname(c.func) in _TOL_FUNCS]
        if not calls:
            continue
        parents = {}
        for p_ in ast.walk(f.node):
            for ch in ast.iter_child_nodes(p_):
                parents[id(ch)] = p_
        tainted = set()
        changed = True
        while changed:
            changed = False
            for st in ast.walk(f.node):
                if isinstance(st, ast.Assign) and len(st.targets) == 1 and isinstance(st.targets[0], ast.Name) and st.targets[0].id not in tainted:
                    v = st.value
                    if any((isinstance(x, ast.Call) and _leafname(x.func) in _TOL_FUNCS) or (isinstance(x, ast.Name) and x.id in tainted)
                           for x in ast.walk(v)):
                        # a reduction to one truth value (all() / any() without axis) is a decision, not a mask
                        scalar = isinstance(v, ast.Call) and _leafname(v.func) in ('all', 'any', 'allclose') and not any(
                            k.arg == 'axis' for k in v.keywords) and len(v.args) <= 1
                        if not scalar:
                            tainted.add(st.targets[0].id)
                            changed = True

        def selecting_use(node):
            """is this expression node (a tolerance call or a tainted name) used to select / group?"""
            cur = node
            while True:
                p_ = parents.get(id(cur))
                if p_ is None:
                    return None
                if isinstance(p_, ast.Subscript) and (p_.slice is cur or any(x is cur for x in ast.walk(p_.slice))) and p_.value is not cur:
                    return p_
                if isinstance(p_, ast.Call) and _leafname(p_.func) in _MASK_CONSUMERS and cur is not p_.func:
                    if _leafname(p_.func) in ('all', 'any', 'sum', 'count_nonzero') and not any(k.arg == 'axis' for k in p_.keywords) \
                            and len(p_.args) <= 1:
                        return None
                    return p_
                if isinstance(p_, ast.Return):
                    return p_
                if isinstance(p_, (ast.If, ast.While, ast.Assert, ast.IfExp)) and getattr(p_, 'test', None) is cur:
                    return None
                if isinstance(p_, ast.stmt):
                    return None
                cur = p_
        for c in calls:
            if _leafname(c.func) == 'allclose':
                continue
            n += 1
            con = 'labels, time points, folds and ties are matched by equality, not within a tolerance'
            uses = [selecting_use(c)]
            for x in ast.walk(f.node):
                if isinstance(x, ast.Name) and x.id in tainted and isinstance(x.ctx, ast.Load):
                    uses.append(selecting_use(x))
            uses = [u for u in uses if u is not None]
            if uses:
                obs.bad(rule, q, con, f'`{norm(c)[:70]}` decides which entries are selected / grouped (`{norm(uses[0])[:60]}`): values within '
                        f'rtol * |value| of each other are treated as the same label, so neighbouring labels of large magnitude (and tied '
                        f'or near-tied values) are merged', where(prog, f, c))
            else:
                obs.unk(rule, q, con, f'`{norm(c)[:70]}` feeds a decision only', where(prog, f, c))
    return n


# -------------------------------------------------------------------------------------------------------- LOST-STORE
def lost_store(ctx, obs, prefixes, rule='LOST-STORE') -> int:
    """`a[mask][:, other] = v` / `a[idx_array][k] = v`: indexing with a boolean mask or an index array makes a COPY, so a store
    through a second subscript lands in a temporary and `a` is unchanged.  Sweep over assignment targets whose base is itself a
    subscript with a definitely advanced index (a name bound to a comparison / boolean expression / np.where / np.array / list
    display, or such an expression in place)."""
    prog = ctx.prog
    n = 0
    for q, f in sorted(prog.functions.items()):
        if not _in_scope(q, prefixes):
            continue
        r = None
        for st in ast.walk(f.node):
            if not isinstance(st, (ast.Assign, ast.AugAssign)):
                continue
            tg = st.targets if isinstance(st, ast.Assign) else [st.target]
            for t in tg:
                if not (isinstance(t, ast.Subscript) and isinstance(t.value, ast.Subscript)):
                    continue
                inner = t.value
                if r is None:
                    r = ctx.dep.result(q)
                kind = _index_kind(inner.slice, r)
                if kind is None:
                    continue
                n += 1
                con = 'a store reaches the array it is meant for'
                if kind == 'advanced':
                    obs.bad(rule, q, con, f'`{norm(t)[:70]} = ...`: `{norm(inner)[:50]}` is indexed with a mask / index array and therefore a '
                            f'copy; the assignment writes into that temporary and `{norm(inner.value)[:30]}` keeps its old values',
                            where(prog, f, st))
                else:
                    obs.ok(rule, q, con, f'`{norm(inner)[:50]}` is a view (basic indexing)', where(prog, f, st))
    return n


def _index_kind(sl, r, depth=0):
    """'basic' (ints / slices / newaxis only), 'advanced' (some component definitely a mask or an index array), None (unknown)"""
    items = list(sl.elts) if isinstance(sl, ast.Tuple) else [sl]
    kinds = []
    for it in items:
        if isinstance(it, ast.Slice) or (isinstance(it, ast.Constant) and (it.value is None or isinstance(it.value, int))) \
                or (isinstance(it, ast.Attribute) and it.attr == 'newaxis') or (isinstance(it, ast.UnaryOp) and isinstance(it.operand, ast.Constant)):
            kinds.append('basic')
        elif isinstance(it, (ast.Compare, ast.List)) or (isinstance(it, ast.UnaryOp) and isinstance(it.op, ast.Invert)) \
                or (isinstance(it, ast.BinOp) and isinstance(it.op, (ast.BitAnd, ast.BitOr))) \
                or (isinstance(it, ast.Call) and _leafname(it.func) in ('where', 'nonzero', 'array', 'arange', 'isnan', 'isfinite', 'logical_not',
                                                                       'logical_and', 'logical_or', 'outer', 'ix_', 'flatnonzero', 'argsort')):
            kinds.append('advanced')
        elif isinstance(it, ast.Name) and depth < 3 and r is not None:
            ids = r.load_defs.get(id(it), ())
            sub = set()
            for i in ids:
                d = r.defs[i]
                if d.kind == 'assign' and d.rhs is not None and isinstance(d.node, ast.Assign) and isinstance(d.node.targets[0], ast.Name):
                    sub.add(_index_kind(d.rhs, r, depth + 1))
                elif d.kind == 'for':
                    it_ = getattr(d.node, 'iter', None)
                    sub.add('basic' if isinstance(it_, ast.Call) and _leafname(it_.func) in ('range', 'enumerate') else None)
                else:
                    sub.add(None)
            kinds.append(next(iter(sub)) if len(sub) == 1 else None)
        else:
            kinds.append(None)
    if 'advanced' in kinds:
        return 'advanced'
    if all(k == 'basic' for k in kinds):
        return 'basic'
    return None


# ----------------------------------------------------------------------------------------------------- MASK-WEIGHT
INDICATOR_HELPERS = ('row_col_indicator_rdm', 'row_col_indicator_g', 'indicator')


def mask_as_weight(ctx, obs, prefixes: Sequence[str], rule='MASK-WEIGHT', indicator_helpers: Sequence[str] = ()) -> int:
    """A per-group statistic is taken over the rows SELECTED for the group (`x[mask]`, `x[idx]`).  Multiplying the whole array by a
    0/1 membership matrix instead (`(labels == k) @ x`, `np.dot(member.astype(float), x)`, einsum with the membership) adds
    `0 * x[j]` for every row outside the group: a NaN / inf anywhere in the data (missing measurements are legal) turns the means
    of ALL groups into NaN.  Flagged: a matrix product whose one operand derives from an equality comparison (through astype / T /
    newaxis / single-assignment locals) and whose other operand is not derived from a comparison."""
    prog = ctx.prog
    n = 0
    for q, f in sorted(prog.functions.items()):
        if not _in_scope(q, prefixes) or f.parent is not None:
            continue
        local = {}
        for s in ast.walk(f.node):
            if isinstance(s, ast.Assign) and len(s.targets) == 1 and isinstance(s.targets[0], ast.Name):
                local.setdefault(s.targets[0].id, []).append(s.value)

        def is_member(e, depth=0) -> bool:
            if depth > 5:
                return False
            if isinstance(e, ast.Compare) and len(e.ops) == 1 and isinstance(e.ops[0], (ast.Eq, ast.NotEq)):
                return True
            if isinstance(e, ast.Call) and _leafname(e.func) in ('astype', 'asarray', 'array', 'transpose', 'float64', 'float_'):
                inner = e.func.value if isinstance(e.func, ast.Attribute) and not (isinstance(e.func.value, ast.Name) and e.func.value.id in ('np', 'numpy')) \
                    else (e.args[0] if e.args else None)
                return inner is not None and is_member(inner, depth + 1)
            if isinstance(e, ast.Call) and _leafname(e.func) in ('isin', 'in1d', 'equal'):
                return True
            if isinstance(e, ast.Call) and _leafname(e.func) == 'outer' and isinstance(e.func, ast.Attribute) \
                    and isinstance(e.func.value, ast.Attribute) and e.func.value.attr in ('equal', 'not_equal'):
                return True
            if isinstance(e, ast.Attribute) and e.attr == 'T':
                return is_member(e.value, depth + 1)
            if isinstance(e, ast.Subscript):
                return is_member(e.value, depth + 1) if not isinstance(e.value, ast.Name) or e.value.id in local else False
            if isinstance(e, ast.BinOp) and isinstance(e.op, (ast.Mult, ast.Div)):
                return is_member(e.left, depth + 1) or is_member(e.right, depth + 1)
            if isinstance(e, ast.Call) and indicator_helpers and _leafname(e.func) in indicator_helpers:
                return True
            if isinstance(e, ast.Name):
                if e.id in unpacked_indicators:
                    return True
                vals = local.get(e.id, [])
                return len(vals) == 1 and is_member(vals[0], depth + 1)
            return False
        # names bound by unpacking the (dense 0/1) result of an indicator helper: row_idx, col_idx = row_col_indicator_rdm(n)
        unpacked_indicators = set()
        if indicator_helpers:
            for s_ in ast.walk(f.node):
                if isinstance(s_, ast.Assign) and isinstance(s_.targets[0], (ast.Tuple, ast.List)) and isinstance(s_.value, ast.Call) \
                        and _leafname(s_.value.func) in indicator_helpers:
                    unpacked_indicators |= {t.id for t in s_.targets[0].elts if isinstance(t, ast.Name)}
        for e in ast.walk(f.node):
            ops = None
            if isinstance(e, ast.BinOp) and isinstance(e.op, ast.MatMult):
                ops = (e.left, e.right)
            elif isinstance(e, ast.Call) and _leafname(e.func) in ('dot', 'matmul', 'tensordot') and len(e.args) >= 2:
                ops = (e.args[0], e.args[1])
            elif isinstance(e, ast.Call) and _leafname(e.func) == 'einsum' and len(e.args) == 3:
                ops = (e.args[1], e.args[2])
            if ops is None:
                continue
            m = [is_member(x) for x in ops]
            if m[0] == m[1]:
                continue
            n += 1
            member, data = (ops[0], ops[1]) if m[0] else (ops[1], ops[0])
            obs.bad(rule, q, f'group statistics in `{norm(e)[:60]}` are taken over the rows selected for the group',
                    f'`{norm(member)[:50]}` is a 0/1 membership array and multiplies the whole of `{norm(data)[:40]}`: rows outside a group '
                    f'enter its sum with weight 0, so one NaN / inf anywhere in the data makes the statistic of every group NaN',
                    where(prog, f, e))
    return n


# ------------------------------------------------------------------------------------------------------------- TRI
def triangular_solve(ctx, obs, prefixes: Sequence[str], rule='TRI') -> int:
    """`solve_triangular(A, b)` reads ONE triangle of A and ignores the other: A must be triangular by construction.  Triangular: the
    result of cholesky (numpy / scipy), np.tril / np.triu, the R of a qr; a product of a triangular factor with a diagonal matrix.
    NOT triangular in general: the outer factor of scipy.linalg.ldl unless it is indexed by the permutation ldl returns (pivoting
    permutes its rows), eigenvector matrices (eigh / eig / svd), a general product.  Anything else: undecided."""
    prog = ctx.prog
    n = 0
    for q, f in sorted(prog.functions.items()):
        if not _in_scope(q, prefixes) or f.parent is not None:
            continue
        calls = [c for c in ast.walk(f.node) if isinstance(c, ast.Call) and _leafname(c.func) in ('solve_triangular', 'cho_solve') and c.args]
        if not calls:
            continue
        r = ctx.dep.result(q)

        def kind(e, depth=0) -> str:
            if depth > 6:
                return 'unknown'
            if isinstance(e, ast.Call):
                lf = _leafname(e.func)
                if lf in ('cholesky', 'tril', 'triu', 'cho_factor'):
                    return 'tri'
                if lf in ('eigh', 'eig', 'svd', 'eigvalsh', 'orth'):
                    return 'general'
                return 'unknown'
            if isinstance(e, ast.BinOp) and isinstance(e.op, ast.MatMult):
                k = kind(e.left, depth + 1)
                return k if k in ('general', 'permuted') else ('tri' if k == 'tri' and kind(e.right, depth + 1) in ('tri', 'diag') else 'unknown')
            if isinstance(e, ast.Subscript):
                # L[perm] of an ldl factor
                if isinstance(e.value, ast.Name) and kind(e.value, depth + 1) == 'permuted' and isinstance(e.slice, (ast.Name, ast.Tuple)):
                    return 'tri'
                return 'unknown'
            if isinstance(e, ast.Attribute) and e.attr == 'T':
                return kind(e.value, depth + 1)
            if isinstance(e, ast.Name):
                ids = r.load_defs.get(id(e), frozenset()) if r is not None else frozenset()
                ks = set()
                for i in ids:
                    d = r.defs[i]
                    if d.kind != 'assign' or not isinstance(d.node, ast.Assign):
                        ks.add('unknown')
                        continue
                    tgt, val = d.node.targets[0], d.node.value
                    if isinstance(tgt, (ast.Tuple, ast.List)) and isinstance(val, ast.Call):
                        pos = next((k_ for k_, t in enumerate(tgt.elts) if isinstance(t, ast.Name) and t.id == e.id), None)
                        lf = _leafname(val.func)
                        if lf == 'ldl':
                            ks.add('permuted' if pos == 0 else ('diag' if pos == 1 else 'unknown'))
                        elif lf in ('eigh', 'eig', 'svd'):
                            ks.add('general')
                        elif lf == 'qr':
                            ks.add('tri' if pos == 1 else 'general')
                        else:
                            ks.add('unknown')
                    elif isinstance(tgt, ast.Name):
                        # D = np.sqrt(D), D[D < eps] = eps keep a diagonal matrix diagonal
                        if isinstance(val, ast.Call) and _leafname(val.func) in ('sqrt', 'abs', 'diag', 'maximum', 'copy') and val.args \
                                and kind(val.args[0], depth + 1) == 'diag':
                            ks.add('diag')
                        elif isinstance(val, ast.Call) and _leafname(val.func) in ('diag', 'eye', 'identity'):
                            ks.add('diag')
                        else:
                            ks.add(kind(val, depth + 1))
                    else:
                        ks.add('unknown')
                if len(ks) == 1:
                    return next(iter(ks))
                if 'general' in ks or 'permuted' in ks:
                    return 'general' if 'general' in ks else 'permuted'
                return 'unknown'
            return 'unknown'
        for c in calls:
            n += 1
            a = c.args[0]
            k = kind(a)
            con = f'the matrix handed to `{norm(c)[:50]}` is triangular by construction'
            if k == 'tri':
                obs.ok(rule, q, con, '', where(prog, f, c))
            elif k in ('general', 'permuted'):
                why = 'the outer factor of scipy.linalg.ldl, whose rows are permuted whenever ldl pivots (the permutation it returns is not applied)' \
                    if k == 'permuted' else 'not a triangular factor (eigenvectors / a general product)'
                obs.bad(rule, q, con, f'`{norm(a)[:40]}` is {why}: solve_triangular silently ignores the entries on the other side of the '
                        f'diagonal and returns the solution of a different system', where(prog, f, c))
            else:
                obs.unk(rule, q, con, f'origin of `{norm(a)[:40]}` not recognised', where(prog, f, c))
    return n


# ----------------------------------------------------------------------------------------------------- LOSSY-GUARD
_PROJECTIONS = {'diag', 'diagonal', 'len', 'trace', 'min', 'max', 'sum', 'mean', 'std', 'var', 'any', 'all', 'unique', 'set', 'sorted',
                'amin', 'amax', 'ptp', 'count_nonzero', 'allclose', 'isclose'}
_PROJ_ATTRS = {'shape', 'ndim', 'size', 'dtype'}


def lossy_guard(ctx, obs, prefixes: Sequence[str], rule='LOSSY-GUARD') -> int:
    """An argument is DISCARDED (`p = None`, replaced by a constant) under a test that only looked at a projection of it - its
    diagonal, its length, its shape, a sum, the set of its entries.  Whatever the projection does not show (the off-diagonal
    covariances of an "isotropic" matrix with constant diagonal, the order of equally many labels) is thrown away with it.  Tests on
    the argument itself (`p is None`, `isinstance(p, ..)`, `p == 'x'`) are not projections."""
    prog = ctx.prog
    n = 0
    for q, f in sorted(prog.functions.items()):
        if not _in_scope(q, prefixes) or f.parent is not None:
            continue
        params = set(f.params)
        proj_locals = {}
        for a_ in ast.walk(f.node):
            if isinstance(a_, ast.Assign) and len(a_.targets) == 1 and isinstance(a_.targets[0], ast.Name):
                for e_ in ast.walk(a_.value):
                    if isinstance(e_, ast.Call) and _leafname(e_.func) in ('diag', 'diagonal', 'trace', 'unique', 'set', 'sorted') and e_.args \
                            and isinstance(e_.args[0], ast.Name) and e_.args[0].id in params:
                        proj_locals[a_.targets[0].id] = (e_.args[0].id, 'proj:' + _leafname(e_.func))
        for st in ast.walk(f.node):
            if not isinstance(st, ast.If):
                continue
            # parameters read by the test, and how
            reads = {}
            parents = {}
            for p_ in ast.walk(st.test):
                for ch in ast.iter_child_nodes(p_):
                    parents[id(ch)] = p_
            for x in ast.walk(st.test):
                if isinstance(x, ast.Name) and x.id in params and isinstance(x.ctx, ast.Load):
                    p_ = parents.get(id(x))
                    how = 'whole'
                    if isinstance(p_, ast.Call) and _leafname(p_.func) in _PROJECTIONS and (x in p_.args or (isinstance(p_.func, ast.Attribute) and p_.func.value is x)):
                        how = 'proj:' + _leafname(p_.func)
                    elif isinstance(p_, ast.Attribute) and p_.attr in _PROJ_ATTRS:
                        how = 'proj:' + p_.attr
                    elif isinstance(p_, ast.Attribute):
                        gp = parents.get(id(p_))
                        if isinstance(gp, ast.Call) and gp.func is p_ and p_.attr in _PROJECTIONS:
                            how = 'proj:' + p_.attr
                    elif isinstance(p_, ast.Subscript) and p_.value is x and isinstance(p_.slice, ast.Constant):
                        how = 'proj:[%r]' % (p_.slice.value,)
                    reads.setdefault(x.id, set()).add(how)
            # locals that hold a projection of a parameter: v = np.diag(p) if p.ndim >= 2 else p  (one branch projects)
            for x in ast.walk(st.test):
                if isinstance(x, ast.Name) and isinstance(x.ctx, ast.Load) and x.id in proj_locals and x.id not in params:
                    pn, how = proj_locals[x.id]
                    if pn not in reads or 'whole' not in reads[pn]:
                        reads.setdefault(pn, set()).add(how)
            for pname, hows in reads.items():
                if 'whole' in hows:
                    continue
                drops = [s2 for s2 in st.body if isinstance(s2, ast.Assign) and len(s2.targets) == 1 and isinstance(s2.targets[0], ast.Name)
                         and s2.targets[0].id == pname and isinstance(s2.value, ast.Constant)]
                if not drops:
                    continue
                n += 1
                obs.bad(rule, q, f'`{pname}` is only discarded on a test that looks at all of it',
                        f'`{norm(st.test)[:70]}` reads `{pname}` through {sorted(h[5:] for h in hows)} only, and then `{norm(drops[0])}` throws the '
                        f'argument away: everything the projection does not show (off-diagonal entries, order, individual values) is lost '
                        f'with it', where(prog, f, st))
    return n


# --------------------------------------------------------------------------------------------------- STALE-DEFAULT
def stale_default(ctx, obs, prefixes: Sequence[str], rule='STALE-DEFAULT') -> int:
    """A parameter whose default is resolved inside the function (`if p is None: p = <default>`, possibly under further conditions)
    has two versions: the caller's value and the resolved one.  The arguments of ONE call must all be computed from the same
    version: a flag computed from the caller's value (`use = 0 if p is None else 1`) next to data computed from the resolved value
    (`codes = f(ds[p])`) tells the callee "no p" while handing it the p that was filled in.  Reaching definitions of the parameter
    are collected for every argument through the local definitions it was computed from."""
    prog = ctx.prog
    n = 0
    for q, f in sorted(prog.functions.items()):
        if not _in_scope(q, prefixes) or f.parent is not None:
            continue
        r = ctx.dep.result(q)
        if r is None:
            continue
        # parameters that are re-assigned with a constant under a test on themselves
        resolved = set()
        for st in ast.walk(f.node):
            if isinstance(st, ast.If):
                for s2 in ast.walk(st):
                    if isinstance(s2, ast.Assign) and len(s2.targets) == 1 and isinstance(s2.targets[0], ast.Name) and s2.targets[0].id in f.params \
                            and isinstance(s2.value, ast.Constant) and s2.value.value is not None:
                        resolved.add(s2.targets[0].id)
        if not resolved:
            continue

        pdefs = {p: {i for i, d in r.defs.items() if d.kind == 'param' and d.var == p} for p in resolved}

        def none_test_of(t):
            """(param, Name node) when t is `p is None` / `p is not None` for a resolved parameter"""
            if isinstance(t, ast.Compare) and len(t.ops) == 1 and isinstance(t.ops[0], (ast.Is, ast.IsNot)) and isinstance(t.left, ast.Name) \
                    and t.left.id in resolved and isinstance(t.comparators[0], ast.Constant) and t.comparators[0].value is None:
                return t.left.id, t.left
            return None

        def flag_of(arg):
            """arg is a 0/1 / bool flag that records whether the CALLER's p was None: every reaching definition is a constant chosen
            by a None-test of p that read the parameter before any re-assignment -> p"""
            if not isinstance(arg, ast.Name):
                return None
            ids = r.load_defs.get(id(arg))
            if not ids:
                return None
            ps = set()
            for i in ids:
                d = r.defs[i]
                if d.kind != 'assign' or d.rhs is None or not isinstance(d.node, ast.Assign):
                    return None
                tests = []
                if isinstance(d.rhs, ast.IfExp) and isinstance(d.rhs.body, ast.Constant) and isinstance(d.rhs.orelse, ast.Constant):
                    tests = [d.rhs.test]
                elif isinstance(d.rhs, ast.Constant) and isinstance(d.rhs.value, (int, bool)):
                    tests = _guards_of(f.node, d.node)[-1:]
                hit = None
                for t in tests:
                    nt = none_test_of(t)
                    if nt is not None and r.load_defs.get(id(nt[1]), frozenset()) <= pdefs[nt[0]]:
                        hit = nt[0]
                if hit is None:
                    return None
                ps.add(hit)
            return next(iter(ps)) if len(ps) == 1 else None

        def reads_resolved(e, p, depth=0, seen=None):
            """some value used to compute e read p AFTER it was re-assigned"""
            seen = seen if seen is not None else set()
            for x in ast.walk(e):
                if not (isinstance(x, ast.Name) and isinstance(x.ctx, ast.Load)):
                    continue
                ids = r.load_defs.get(id(x))
                if ids is None:
                    continue
                if x.id == p:
                    if not (ids <= pdefs[p]):
                        return True
                elif depth < 5:
                    for i in ids:
                        d = r.defs[i]
                        rhs = d.rhs if d.rhs is not None else (d.node.value if isinstance(d.node, ast.Assign) else None)
                        if i in seen or d.kind != 'assign' or rhs is None:
                            continue
                        seen.add(i)
                        if reads_resolved(rhs, p, depth + 1, seen):
                            return True
            return False
        for c in ast.walk(f.node):
            if not (isinstance(c, ast.Call) and len(c.args) + len(c.keywords) >= 2):
                continue
            args = [a for a in list(c.args) + [k.value for k in c.keywords] if not isinstance(a, ast.Starred)]
            flags = [(a, flag_of(a)) for a in args]
            for a, p in flags:
                if p is None:
                    continue
                n += 1
                con = f'the flag `{norm(a)}` handed to `{norm(c.func)}(..)` says whether the `{p}` that the other arguments use is set'
                later = [b for b in args if b is not a and reads_resolved(b, p)]
                if later:
                    obs.bad(rule, q, con, f'`{norm(a)}` records whether the CALLER passed `{p}` (the None-test runs before the default is filled '
                            f'in), while `{norm(later[0])[:40]}` is computed from `{p}` after its default was resolved: with `{p}` left at None '
                            f'the callee is told "no {p}" and given data for the default one', where(prog, f, c))
                else:
                    obs.ok(rule, q, con, '', where(prog, f, c))
    return n


def _guards_of(root, stmt):
    """tests of the if statements that enclose stmt"""
    out = []

    def rec(n, acc):
        if n is stmt:
            out.extend(acc)
            return True
        for ch in ast.iter_child_nodes(n):
            if rec(ch, acc + ([n.test] if isinstance(n, ast.If) else [])):
                return True
        return False
    rec(root, [])
    return out



# -------------------------------------------------------------------------------------------------------- NAME-KEY
def name_keyed_memo(ctx, obs, prefixes: Sequence[str], rule='NAME-KEY') -> int:
    """`{m.name: f(m) for m in models}` read back as `d[m.name]`: a table of per-item results keyed by a LABEL of the item (name,
    label, title) instead of its position / identity.  Two items with the same label - the same model passed twice with different
    parameters, two models a user did not bother to name - share one entry and one of them is evaluated with the other's result."""
    prog = ctx.prog
    n = 0
    for q, f in sorted(prog.functions.items()):
        if not _in_scope(q, prefixes) or f.parent is not None:
            continue
        for st in ast.walk(f.node):
            if not (isinstance(st, ast.Assign) and len(st.targets) == 1 and isinstance(st.targets[0], ast.Name) and isinstance(st.value, ast.DictComp)):
                continue
            dc = st.value
            key = dc.key
            if not (isinstance(key, ast.Attribute) and key.attr in ('name', 'label', 'title') and isinstance(key.value, ast.Name)):
                continue
            loopvars = {x.id for g in dc.generators for x in ast.walk(g.target) if isinstance(x, ast.Name)}
            if key.value.id not in loopvars:
                continue
            table = st.targets[0].id
            reads = [x for x in ast.walk(f.node) if isinstance(x, ast.Subscript) and isinstance(x.ctx, ast.Load) and isinstance(x.value, ast.Name)
                     and x.value.id == table and isinstance(x.slice, ast.Attribute) and x.slice.attr == key.attr]
            if not reads:
                continue
            n += 1
            obs.bad(rule, q, f'the per-item table `{table}` has one entry per item',
                    f'`{norm(st)[:80]}` keys the results by `.{key.attr}` and `{norm(reads[0])}` reads them back by it: items that share a '
                    f'{key.attr} (the same model twice with different parameters, unnamed models) share one entry, so one of them is '
                    f'scored with the other\'s result', where(prog, f, st))
    return n


# ------------------------------------------------------------------------------------------------------- LATE-BIND
def late_binding(ctx, obs, prefixes: Sequence[str], rule='LATE-BIND') -> int:
    """A function (def / lambda) created inside a loop that reads the loop variable as a FREE variable sees the value the variable
    has when the function is CALLED.  Used inside the same iteration that is fine; put into a list / dict / returned and called
    after the loop, every one of them sees the last value.  Binding the value at definition time (a default argument
    `lambda w, i=i: ..`, functools.partial) is the accepted idiom."""
    prog = ctx.prog
    n = 0
    for q, f in sorted(prog.functions.items()):
        if not _in_scope(q, prefixes) or f.parent is not None:
            continue
        for lp in [x for x in ast.walk(f.node) if isinstance(x, ast.For)]:
            lvars = {x.id for x in ast.walk(lp.target) if isinstance(x, ast.Name)}
            inner = [st for st in lp.body if isinstance(st, ast.FunctionDef)] + \
                [x for st in lp.body for x in ast.walk(st) if isinstance(x, ast.Lambda)]
            for fn in inner:
                own = {a.arg for a in fn.args.args + fn.args.kwonlyargs + fn.args.posonlyargs}
                if fn.args.vararg:
                    own.add(fn.args.vararg.arg)
                if fn.args.kwarg:
                    own.add(fn.args.kwarg.arg)
                body_nodes = [x for st in (fn.body if isinstance(fn, ast.FunctionDef) else [fn.body]) for x in ast.walk(st)]
                stored = {x.id for x in body_nodes if isinstance(x, ast.Name) and isinstance(x.ctx, ast.Store)}
                free = sorted({x.id for x in body_nodes if isinstance(x, ast.Name) and isinstance(x.ctx, ast.Load)
                               and x.id in lvars and x.id not in own and x.id not in stored})
                if not free:
                    continue
                n += 1
                # does the function object leave the iteration?
                escapes = None
                if isinstance(fn, ast.FunctionDef):
                    for x in ast.walk(lp):
                        if isinstance(x, ast.Call) and isinstance(x.func, ast.Attribute) and x.func.attr in ('append', 'extend', 'insert', 'add', 'setdefault') \
                                and any(isinstance(a, ast.Name) and a.id == fn.name for a in x.args):
                            escapes = x
                        if isinstance(x, ast.Assign) and isinstance(x.targets[0], ast.Subscript) and isinstance(x.value, ast.Name) and x.value.id == fn.name:
                            escapes = x
                        if isinstance(x, (ast.Yield, ast.Return)) and isinstance(x.value, ast.Name) and x.value.id == fn.name:
                            escapes = x
                else:
                    par = {}
                    for p_ in ast.walk(lp):
                        for ch in ast.iter_child_nodes(p_):
                            par[id(ch)] = p_
                    p_ = par.get(id(fn))
                    if isinstance(p_, ast.Call) and isinstance(p_.func, ast.Attribute) and p_.func.attr in ('append', 'extend', 'insert', 'add') and fn in p_.args:
                        escapes = p_
                    elif isinstance(p_, ast.Assign) and isinstance(p_.targets[0], ast.Subscript):
                        escapes = p_
                    elif isinstance(p_, (ast.List, ast.Tuple, ast.Dict)):
                        escapes = p_
                con = f'a function created in the loop at line {lp.lineno} does not outlive the iteration whose `{", ".join(free)}` it reads'
                if escapes is not None:
                    obs.bad(rule, q, con, f'the function defined at line {fn.lineno} reads `{", ".join(free)}` from the enclosing loop and is stored '
                            f'(`{norm(escapes)[:60]}`): when it is called after the loop every stored function sees the LAST value of '
                            f'`{free[0]}`', where(prog, f, fn))
                else:
                    obs.ok(rule, q, con, 'used inside the iteration only', where(prog, f, fn))
    return n


# -------------------------------------------------------------------------------------------------------- OR-FALSY
def or_default_on_table(ctx, obs, prefixes: Sequence[str], rule='OR-FALSY') -> int:
    """`TABLE.get(key) or default` with a literal table that maps some key to a FALSY value (0, 0.0, '', False): for that key the
    looked-up value is legitimate and falsy, `or` throws it away and the default is used instead (`{'equal': 0, 'number': 1}
    .get(w) or 1` is 1 for 'equal')."""
    prog = ctx.prog
    n = 0
    for q, f in sorted(prog.functions.items()):
        if not _in_scope(q, prefixes) or f.parent is not None:
            continue
        local = {}
        for s in ast.walk(f.node):
            if isinstance(s, ast.Assign) and len(s.targets) == 1 and isinstance(s.targets[0], ast.Name) and isinstance(s.value, ast.Dict):
                local.setdefault(s.targets[0].id, []).append(s.value)
        for e in ast.walk(f.node):
            if not (isinstance(e, ast.BoolOp) and isinstance(e.op, ast.Or) and len(e.values) >= 2):
                continue
            first = e.values[0]
            if not (isinstance(first, ast.Call) and isinstance(first.func, ast.Attribute) and first.func.attr == 'get'):
                continue
            tbl = first.func.value
            if isinstance(tbl, ast.Name) and len(local.get(tbl.id, [])) == 1:
                tbl = local[tbl.id][0]
            if not isinstance(tbl, ast.Dict):
                continue
            falsy = [(k, v) for k, v in zip(tbl.keys, tbl.values) if isinstance(v, ast.Constant) and v.value is not None and not v.value]
            n += 1
            con = f'`{norm(e)[:60]}`: every entry of the table can be returned'
            if falsy:
                k, v = falsy[0]
                obs.bad(rule, q, con, f'the table maps `{norm(k)}` to `{norm(v)}`, which is falsy: `or` replaces it by `{norm(e.values[-1])}` - the '
                        f'entry for `{norm(k)}` can never be the result', where(prog, f, e))
            else:
                obs.ok(rule, q, con, '', where(prog, f, e))
    return n
