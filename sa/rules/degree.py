"""DEG - degree of a product expression in one input.

`xi = C @ Sigma @ C'` is LINEAR in the pattern covariance whatever form Sigma is given in (None, variance vector, matrix); the
"saving" `Cs = C.multiply(s); xi = Cs @ Cs'` is quadratic in s (it computes C diag(s^2) C').  The degree of an expression in a
parameter is computed through the reaching definitions: products (@, *, .multiply, .dot, np.dot, einsum of two operands) add the
degrees of their operands, sums take the maximum, wrappers that keep the values (diags, csr_matrix, asarray, reshape, transpose,
astype, tocsr ...) keep the degree, sqrt halves it, everything else is unknown."""
from __future__ import annotations
import ast
from fractions import Fraction
from typing import Optional

KEEP = {'diags', 'diag', 'csr_matrix', 'csc_matrix', 'asarray', 'array', 'reshape', 'transpose', 'astype', 'tocsr', 'tocsc', 'toarray',
        'copy', 'ravel', 'flatten', 'squeeze', 'atleast_1d', 'atleast_2d', 'todense', 'conj', 'real'}
PROD = {'multiply', 'dot', 'matmul', 'outer', 'kron'}


def _leaf(fn):
    return fn.attr if isinstance(fn, ast.Attribute) else (fn.id if isinstance(fn, ast.Name) else '')


def degree(res, e, param: str, depth=0, at=None) -> Optional[Fraction]:
    """degree of e in `param`, None if unknown.  `res` is the FuncResult (reaching definitions)."""
    if depth > 25:
        return None
    if isinstance(e, ast.Constant):
        return Fraction(0)
    if isinstance(e, ast.Name):
        ids = res.load_defs.get(id(e), ())
        if not ids:
            return Fraction(0)
        degs = set()
        for i in ids:
            d = res.defs[i]
            if d.kind == 'param':
                degs.add(Fraction(1) if d.var == param else Fraction(0))
            elif d.kind == 'assign' and d.rhs is not None and isinstance(d.node, ast.Assign) and isinstance(d.node.targets[0], ast.Name):
                degs.add(degree(res, d.rhs, param, depth + 1))
            else:
                degs.add(None)
        if None in degs:
            return None
        return max(degs)       # alternatives: the worst (highest) degree that can reach
    if isinstance(e, ast.Attribute):
        if e.attr == 'T':
            return degree(res, e.value, param, depth + 1)
        if e.attr in ('shape', 'ndim', 'size', 'dtype'):
            return Fraction(0)
        return None
    if isinstance(e, ast.UnaryOp):
        return degree(res, e.operand, param, depth + 1)
    if isinstance(e, ast.BinOp):
        l, r = degree(res, e.left, param, depth + 1), degree(res, e.right, param, depth + 1)
        if l is None or r is None:
            return None
        if isinstance(e.op, (ast.MatMult, ast.Mult)):
            return l + r
        if isinstance(e.op, (ast.Add, ast.Sub)):
            return max(l, r)
        if isinstance(e.op, ast.Div):
            return l - r
        if isinstance(e.op, ast.Pow) and isinstance(e.right, ast.Constant) and isinstance(e.right.value, (int, float)):
            return l * Fraction(e.right.value).limit_denominator(16)
        return None
    if isinstance(e, ast.Subscript):
        return degree(res, e.value, param, depth + 1)
    if isinstance(e, ast.Call):
        leaf = _leaf(e.func)
        is_np = isinstance(e.func, ast.Attribute) and isinstance(e.func.value, ast.Name) and e.func.value.id in ('np', 'numpy', 'scipy', 'sparse')
        recv = e.func.value if isinstance(e.func, ast.Attribute) and not is_np else None
        if isinstance(e.func, ast.Attribute) and isinstance(e.func.value, ast.Attribute):
            recv = None if ast.unparse(e.func.value).startswith(('scipy', 'np.', 'numpy', 'sparse')) else recv
        if leaf in KEEP:
            x = recv if recv is not None else (e.args[0] if e.args else None)
            return degree(res, x, param, depth + 1) if x is not None else None
        if leaf in PROD:
            ops = ([recv] if recv is not None else []) + list(e.args[:2 if recv is None else 1])
            ds = [degree(res, o, param, depth + 1) for o in ops]
            return None if any(d is None for d in ds) or len(ds) < 2 else sum(ds, Fraction(0))
        if leaf == 'sqrt':
            x = e.args[0] if e.args else recv
            d = degree(res, x, param, depth + 1) if x is not None else None
            return None if d is None else d / 2
        if leaf in ('arange', 'eye', 'ones', 'zeros', 'identity', 'pairwise_contrast_sparse', 'pairwise_contrast', 'len'):
            return Fraction(0)
        return None
    return None
