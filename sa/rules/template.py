"""TPL: a small partial evaluator for functions that assemble a string / path out of named pieces.

The BIDS path builder (`BidsLayout._replace`) is the instance: its result is a path whose segments are constants and
`<entity>-<value>` pairs, each present under a condition on an entity.  What the property needs (every parsed entity comes
back, under its own name, in BIDS order, present iff the entity is set) is a statement about that *template*, not about the
text of the function; an unrolled sequence of `+=`, a loop over a table of entity names, a helper that resolves all entities
into a dict, `append` / `extend` instead of `+=` all denote the same template.

The evaluator interprets the function body over an abstract domain (nothing is executed):

    constants        python values (str, None, int, tuples of constants)
    Prm(name)        an opaque parameter
    Rep(k) / Inh(k)  `replace[k]`  /  `getattr(base, k)`, `base.k`
    Ent(k)           "replace[k] if k in replace else base.k": the resolved entity
    S(parts)         string template: tuple of str | Ent | U
    L(items)         list; items are (guard, value); guard = frozenset of (entity | '?n', polarity)
    D(map)           dict with constant keys
    J(sep, L)        sep.join(list)
    P(L)             os.path.join(*list)
    U(why)           unknown

Control flow: `if <entity value>` adds to the guard of whatever is inserted into a list below it; `if k in replace` with the
two arms yielding Rep(k) / Inh(k) merges to Ent(k); `for x in <constant tuple>` is unrolled; calls to closures, to methods of
the same class and to functions of the same module are interpreted (depth-bounded).  Everything else is havoc: the names
stored become U and lists touched receive a U item, so an unrecognised construct surfaces as *undecided*, never as a verdict.
"""
from __future__ import annotations

import ast
from dataclasses import dataclass
from typing import Any, Dict, List, Optional, Tuple

from .common import norm


@dataclass(frozen=True)
class U:
    why: str = ''

    def __eq__(self, other):
        return False

    def __hash__(self):
        return id(self)


@dataclass(frozen=True)
class Prm:
    name: str


@dataclass(frozen=True)
class Rep:
    key: Any


@dataclass(frozen=True)
class Inh:
    key: Any


@dataclass(frozen=True)
class Ent:
    key: Any


@dataclass(frozen=True)
class S:
    parts: tuple


class L:
    def __init__(self, items=None):
        self.items: List[Tuple[frozenset, Any]] = list(items or [])

    def copy(self):
        return L(self.items)

    def __eq__(self, other):
        return isinstance(other, L) and self.items == other.items

    def __hash__(self):
        return id(self)

    def __repr__(self):
        return f'L({self.items})'


class D:
    def __init__(self, m=None):
        self.m: Dict[Any, Any] = dict(m or {})

    def __eq__(self, other):
        return isinstance(other, D) and self.m == other.m

    def __hash__(self):
        return id(self)

    def __repr__(self):
        return f'D({self.m})'


@dataclass(frozen=True)
class J:
    sep: str
    lst: Any

    def __hash__(self):
        return id(self)


@dataclass(frozen=True)
class P:
    lst: Any

    def __hash__(self):
        return id(self)


@dataclass
class Closure:
    node: Any
    env: Any
    owner: Any = None      # FuncInfo of the enclosing / defining function (for class lookups)
    bind_self: Any = None  # value bound to the first parameter (methods)


class _NoRet:
    pass


NORET = _NoRet()
_CONST = (str, int, float, bool, type(None), tuple)


def is_const(v):
    return isinstance(v, _CONST)


class Env:
    def __init__(self, parent=None):
        self.v: Dict[str, Any] = {}
        self.parent = parent

    def get(self, k):
        e = self
        while e is not None:
            if k in e.v:
                return e.v[k]
            e = e.parent
        return None

    def has(self, k):
        e = self
        while e is not None:
            if k in e.v:
                return True
            e = e.parent
        return False

    def set(self, k, val):
        self.v[k] = val

    def fork(self):
        """A copy for one arm of a branch: mutable values (lists, dicts) are cloned, aliasing among them preserved."""
        c = Env(self.parent)
        memo: Dict[int, Any] = {}
        c.v = {k: _clone(v, memo) for k, v in self.v.items()}
        return c


class TemplateEval:
    def __init__(self, prog, fi, base_param: str, replace_param: str, max_depth=4):
        self.prog, self.fi = prog, fi
        self.base, self.rep = base_param, replace_param
        self.max_depth = max_depth
        self.unknown_conds = 0
        self.notes: List[str] = []

    # ------------------------------------------------------------------ entry
    def run(self):
        env = Env()
        a = self.fi.node.args
        for p in a.posonlyargs + a.args + a.kwonlyargs:
            env.set(p.arg, Prm(p.arg))
        r = self.block(self.fi.node.body, env, frozenset(), 0)
        return U('no return') if r is NORET else r

    # ------------------------------------------------------------------ statements
    def block(self, stmts, env, guard, depth):
        for i, s in enumerate(stmts):
            r = self.stmt(s, env, guard, depth, stmts[i + 1:])
            if r is not NORET:
                return r
        return NORET

    def stmt(self, s, env, guard, depth, rest):
        if isinstance(s, ast.Return):
            return self.expr(s.value, env, guard, depth) if s.value is not None else None
        if isinstance(s, ast.FunctionDef):
            env.set(s.name, Closure(s, env, self.fi))
            return NORET
        if isinstance(s, ast.Expr):
            if isinstance(s.value, ast.Constant):
                return NORET
            self.expr(s.value, env, guard, depth)
            return NORET
        if isinstance(s, ast.AnnAssign) and s.value is not None:
            s = ast.Assign(targets=[s.target], value=s.value)
        if isinstance(s, ast.Assign):
            v = self.expr(s.value, env, guard, depth)
            for t in s.targets:
                self.store(t, v, env, guard, depth)
            return NORET
        if isinstance(s, ast.AugAssign):
            if isinstance(s.op, ast.Add):
                cur = self.expr(s.target, env, guard, depth)
                v = self.expr(s.value, env, guard, depth)
                if isinstance(cur, L) and isinstance(v, L):
                    cur.items.extend((g | guard, x) for g, x in v.items)
                    return NORET
                if isinstance(cur, L):
                    cur.items.append((guard, U(f'`{norm(s)[:60]}`')))
                    return NORET
                self.store(s.target, self.add(cur, v), env, guard, depth)
                return NORET
            self.havoc(s, env, guard)
            return NORET
        if isinstance(s, ast.If):
            return self.if_(s, env, guard, depth, rest)
        if isinstance(s, ast.For):
            it = self.expr(s.iter, env, guard, depth)
            if isinstance(it, tuple) and not s.orelse and not any(isinstance(n, (ast.Break, ast.Continue, ast.Return))
                                                                  for b in s.body for n in ast.walk(b)):
                for x in it:
                    self.store(s.target, x, env, guard, depth)
                    self.block(s.body, env, guard, depth)
                return NORET
            self.havoc(s, env, guard)
            return NORET
        if isinstance(s, (ast.Pass, ast.Import, ast.ImportFrom, ast.Assert)):
            return NORET
        self.havoc(s, env, guard)
        return NORET

    def havoc(self, s, env, guard):
        why = f'`{norm(s)[:70]}`'
        self.notes.append(f'not interpreted: {why}')
        for n in ast.walk(s):
            if isinstance(n, ast.Name):
                v = env.get(n.id)
                if isinstance(n.ctx, ast.Store):
                    env.set(n.id, U(why))
                elif isinstance(v, L):
                    v.items.append((guard, U(why)))
                elif isinstance(v, D):
                    for k in list(v.m):
                        v.m[k] = U(why)

    def store(self, t, v, env, guard, depth):
        if isinstance(t, ast.Name):
            env.set(t.id, v)
        elif isinstance(t, ast.Subscript):
            o = self.expr(t.value, env, guard, depth)
            k = self.expr(t.slice, env, guard, depth)
            if isinstance(o, D) and is_const(k):
                o.m[k] = v
            elif isinstance(o, D):
                for kk in list(o.m):
                    o.m[kk] = U('store under unknown key')
        elif isinstance(t, (ast.Tuple, ast.List)):
            if isinstance(v, tuple) and len(v) == len(t.elts):
                for e, x in zip(t.elts, v):
                    self.store(e, x, env, guard, depth)
            else:
                for e in t.elts:
                    self.store(e, U('unpacking'), env, guard, depth)

    # ------------------------------------------------------------------ conditions
    def cond(self, e, env, guard, depth):
        """-> ('ent', key, polarity) | ('in', key, polarity) | ('const', bool) | ('?', n, True)"""
        if isinstance(e, ast.UnaryOp) and isinstance(e.op, ast.Not):
            c = self.cond(e.operand, env, guard, depth)
            if c[0] == 'const':
                return ('const', not c[1])
            return (c[0], c[1], not c[2])
        if isinstance(e, ast.Compare) and len(e.ops) == 1:
            op, r = e.ops[0], e.comparators[0]
            if isinstance(op, (ast.In, ast.NotIn)):
                k = self.expr(e.left, env, guard, depth)
                c = self.expr(r, env, guard, depth)
                if c == Prm(self.rep) and is_const(k):
                    return ('in', k, isinstance(op, ast.In))
                if isinstance(c, D) and is_const(k):
                    return ('const', (k in c.m) == isinstance(op, ast.In))
                if isinstance(c, tuple) and is_const(k):
                    return ('const', (k in c) == isinstance(op, ast.In))
            if isinstance(op, (ast.Is, ast.IsNot, ast.Eq, ast.NotEq)) and isinstance(r, ast.Constant) and r.value is None:
                v = self.expr(e.left, env, guard, depth)
                pos = isinstance(op, (ast.IsNot, ast.NotEq))
                if isinstance(v, Ent):
                    return ('ent', v.key, pos)
                if is_const(v):
                    return ('const', (v is not None) == pos)
        else:
            v = self.expr(e, env, guard, depth)
            if isinstance(v, Ent):
                return ('ent', v.key, True)
            if is_const(v):
                return ('const', bool(v))
            if isinstance(v, L) and all(not g for g, _ in v.items) and not any(isinstance(x, U) for _, x in v.items):
                return ('const', bool(v.items))
            if isinstance(v, L):
                gs = {g for g, _ in v.items}
                if len(gs) == 1 and len(next(iter(gs))) == 1:
                    (k, pol), = next(iter(gs))
                    if not str(k).startswith('?'):
                        return ('ent', k, pol)
        self.unknown_conds += 1
        self.notes.append(f'condition not interpreted: `{norm(e)[:60]}`')
        return ('?', f'?{self.unknown_conds}', True)

    def if_(self, s, env, guard, depth, rest):
        c = self.cond(s.test, env, guard, depth)
        if c[0] == 'const':
            r = self.block(s.body if c[1] else s.orelse, env, guard, depth)
            return r
        e1, e2 = env.fork(), env.fork()
        if c[0] == 'in':
            g1 = g2 = guard
        else:
            g1 = guard | {(c[1], c[2])}
            g2 = guard | {(c[1], not c[2])}
        r1 = self.block(s.body, e1, g1, depth)
        r2 = self.block(s.orelse, e2, g2, depth)
        if r1 is NORET and r2 is NORET:
            self.merge_env(env, c, e1, e2)
            return NORET
        # one or both arms return: the remaining statements belong to the arm(s) that fall through
        if r1 is NORET:
            r1 = self.block(rest, e1, g1, depth)
        if r2 is NORET:
            r2 = self.block(rest, e2, g2, depth)
        if r1 is NORET or r2 is NORET:
            return U('a path falls off the end')
        return self.merge_val(c, r1, r2)

    def merge_env(self, env, c, e1, e2):
        self._merged = {}
        for k in sorted(set(e1.v) | set(e2.v)):
            a, b = e1.v.get(k, env.get(k)), e2.v.get(k, env.get(k))
            env.set(k, self.merge_val(c, a, b))

    def merge_val(self, c, a, b):
        if a is b:
            return a
        memo = getattr(self, '_merged', None)
        if memo is not None and isinstance(a, (L, D)) and (id(a), id(b)) in memo:
            return memo[(id(a), id(b))]
        r = self._merge_val(c, a, b)
        if memo is not None and isinstance(a, (L, D)):
            memo[(id(a), id(b))] = r
        return r

    def _merge_val(self, c, a, b):
        if c[0] == 'in':
            if not c[2]:
                a, b = b, a
            if a == Rep(c[1]) and b == Inh(c[1]):
                return Ent(c[1])
        if isinstance(a, L) and isinstance(b, L):
            n = 0
            while n < len(a.items) and n < len(b.items) and a.items[n] == b.items[n]:
                n += 1
            out = L(a.items[:n])
            if c[0] in ('ent', '?'):
                out.items += [(g | {(c[1], c[2])}, x) for g, x in a.items[n:]]
                out.items += [(g | {(c[1], not c[2])}, x) for g, x in b.items[n:]]
            elif len(a.items) == len(b.items) and all(x[0] == y[0] for x, y in zip(a.items, b.items)):
                out.items += [(x[0], self.merge_val(c, x[1], y[1])) for x, y in zip(a.items[n:], b.items[n:])]
            else:
                out.items.append((frozenset(), U('lists of the two arms differ')))
            return out
        if isinstance(a, D) and isinstance(b, D):
            return D({k: self.merge_val(c, a.m[k], b.m[k]) if k in a.m and k in b.m else U(f'key {k!r} set in one arm only')
                      for k in list(a.m) + [k for k in b.m if k not in a.m]})
        try:
            if a == b and not isinstance(a, U):
                return a
        except Exception:
            pass
        return U('values of the two arms differ')

    # ------------------------------------------------------------------ expressions
    def add(self, a, b):
        if isinstance(a, L) and isinstance(b, L):
            return L(a.items + b.items)
        if isinstance(a, (str, S, Ent, Rep, Inh)) and isinstance(b, (str, S, Ent, Rep, Inh)):
            pa = a.parts if isinstance(a, S) else (a,)
            pb = b.parts if isinstance(b, S) else (b,)
            return S(_squash(pa + pb))
        if isinstance(a, tuple) and isinstance(b, tuple):
            return a + b
        return U('+')

    def expr(self, e, env, guard, depth):
        if e is None:
            return None
        if isinstance(e, ast.Constant):
            return e.value
        if isinstance(e, ast.Name):
            if env.has(e.id):
                return env.get(e.id)
            return self.module_const(e.id)
        if isinstance(e, ast.Tuple):
            xs = [self.expr(x, env, guard, depth) for x in e.elts]
            return tuple(xs) if all(is_const(x) for x in xs) else L([(frozenset(), x) for x in xs])
        if isinstance(e, ast.List):
            out = L()
            for x in e.elts:
                if isinstance(x, ast.Starred):
                    v = self.expr(x.value, env, guard, depth)
                    if isinstance(v, L):
                        out.items += v.items
                    elif isinstance(v, tuple):
                        out.items += [(frozenset(), y) for y in v]
                    else:
                        out.items.append((frozenset(), U('starred')))
                else:
                    out.items.append((frozenset(), self.expr(x, env, guard, depth)))
            return out
        if isinstance(e, ast.Dict):
            d = D()
            for k, v in zip(e.keys, e.values):
                kk = self.expr(k, env, guard, depth) if k is not None else U('**')
                if not is_const(kk):
                    return U('dict with computed key')
                d.m[kk] = self.expr(v, env, guard, depth)
            return d
        if isinstance(e, ast.JoinedStr):
            parts = []
            for v in e.values:
                if isinstance(v, ast.Constant):
                    parts.append(str(v.value))
                elif isinstance(v, ast.FormattedValue) and v.format_spec is None and v.conversion in (-1, 115):
                    x = self.expr(v.value, env, guard, depth)
                    if isinstance(x, S):
                        parts += list(x.parts)
                    elif isinstance(x, (Ent, Rep, Inh, str)):
                        parts.append(x)
                    elif is_const(x):
                        parts.append(str(x))
                    else:
                        parts.append(x if isinstance(x, U) else U(f'`{norm(v.value)[:40]}`'))
                else:
                    parts.append(U('formatted'))
            return S(_squash(tuple(parts)))
        if isinstance(e, ast.BinOp) and isinstance(e.op, ast.Add):
            return self.add(self.expr(e.left, env, guard, depth), self.expr(e.right, env, guard, depth))
        if isinstance(e, ast.IfExp):
            c = self.cond(e.test, env, guard, depth)
            if c[0] == 'const':
                return self.expr(e.body if c[1] else e.orelse, env, guard, depth)
            a = self.expr(e.body, env, guard, depth)
            b = self.expr(e.orelse, env, guard, depth)
            if isinstance(a, L) and isinstance(b, L) and c[0] in ('ent', '?'):
                return L([(g | {(c[1], c[2])}, x) for g, x in a.items] + [(g | {(c[1], not c[2])}, x) for g, x in b.items])
            return self.merge_val(c, a, b)
        if isinstance(e, ast.Attribute):
            o = self.expr(e.value, env, guard, depth) if not (isinstance(e.value, ast.Name) and not env.has(e.value.id)) else None
            if o == Prm(self.base):
                return Inh(e.attr)
            cv = self.class_const(e)
            if cv is not None:
                return cv
            return U(f'`{norm(e)[:40]}`')
        if isinstance(e, ast.Subscript):
            o = self.expr(e.value, env, guard, depth)
            k = self.expr(e.slice, env, guard, depth)
            if isinstance(o, D) and is_const(k):
                return o.m.get(k, U(f'missing key {k!r}'))
            if o == Prm(self.rep) and is_const(k):
                return Rep(k)
            if isinstance(o, tuple) and isinstance(k, int) and -len(o) <= k < len(o):
                return o[k]
            return U(f'`{norm(e)[:40]}`')
        if isinstance(e, ast.Call):
            return self.call(e, env, guard, depth)
        if isinstance(e, (ast.ListComp, ast.GeneratorExp)) and len(e.generators) == 1 and not e.generators[0].is_async:
            g = e.generators[0]
            it = self.expr(g.iter, env, guard, depth)
            if isinstance(it, tuple):
                out = L()
                for x in it:
                    sub = Env(env)
                    self.store(g.target, x, sub, guard, depth)
                    gg = frozenset()
                    skip = False
                    for cnd in g.ifs:
                        c = self.cond(cnd, sub, guard, depth)
                        if c[0] == 'const':
                            skip = skip or not c[1]
                        elif c[0] == 'in':
                            return U('comprehension filter on the replacement dict')
                        else:
                            gg = gg | {(c[1], c[2])}
                    if not skip:
                        out.items.append((gg, self.expr(e.elt, sub, guard, depth)))
                return out
        return U(f'`{norm(e)[:40]}`')

    def call(self, e, env, guard, depth):
        f = e.func
        leaf = f.attr if isinstance(f, ast.Attribute) else f.id if isinstance(f, ast.Name) else ''
        args = e.args
        # getattr(base, k)
        if leaf == 'getattr' and isinstance(f, ast.Name) and len(args) >= 2:
            o, k = self.expr(args[0], env, guard, depth), self.expr(args[1], env, guard, depth)
            if o == Prm(self.base) and is_const(k) and len(args) == 2:
                return Inh(k)
            return U('getattr')
        if isinstance(f, ast.Name) and leaf in ('dict', 'list', 'tuple', 'str') and not env.has(leaf):
            if leaf == 'dict' and not args:
                return D({k.arg: self.expr(k.value, env, guard, depth) for k in e.keywords if k.arg})
            if leaf == 'list' and not args:
                return L()
            if leaf in ('list', 'tuple') and len(args) == 1:
                v = self.expr(args[0], env, guard, depth)
                if isinstance(v, L):
                    return v.copy()
                if isinstance(v, tuple):
                    return L([(frozenset(), x) for x in v]) if leaf == 'list' else v
            if leaf == 'str' and len(args) == 1:
                v = self.expr(args[0], env, guard, depth)
                if isinstance(v, (str, S, Ent)):
                    return v
            return U(leaf)
        if isinstance(f, ast.Attribute):
            recv_is_self = isinstance(f.value, ast.Name) and (f.value.id in ('self', 'cls') or self.is_own_class(f.value.id))
            if not recv_is_self:
                o = self.expr(f.value, env, guard, depth)
                if leaf == 'format' and isinstance(o, str) and not e.keywords:
                    return self.str_format(o, [self.expr(a, env, guard, depth) for a in args])
                if leaf == 'join' and isinstance(o, str) and len(args) == 1:
                    v = self.expr(args[0], env, guard, depth)
                    if isinstance(v, tuple):
                        v = L([(frozenset(), x) for x in v])
                    return J(o, v) if isinstance(v, L) else U('join of a non-list')
                if leaf == 'join' and not e.keywords and norm(f.value) in ('os.path', 'path'):
                    return self.path_join(args, env, guard, depth)
                if isinstance(o, L):
                    if leaf == 'append' and len(args) == 1:
                        o.items.append((guard, self.expr(args[0], env, guard, depth)))
                        return None
                    if leaf == 'extend' and len(args) == 1:
                        v = self.expr(args[0], env, guard, depth)
                        if isinstance(v, tuple):
                            v = L([(frozenset(), x) for x in v])
                        if isinstance(v, L):
                            o.items.extend((g | guard, x) for g, x in v.items)
                        else:
                            o.items.append((guard, U('extend with a non-list')))
                        return None
                    if leaf == 'copy' and not args:
                        return o.copy()
                    o.items.append((guard, U(f'list.{leaf}')))
                    return U(f'list.{leaf}')
                if o == Prm(self.rep):
                    if leaf == 'get' and args:
                        k = self.expr(args[0], env, guard, depth)
                        dflt = self.expr(args[1], env, guard, depth) if len(args) > 1 else None
                        if is_const(k) and dflt == Inh(k):
                            return Ent(k)
                    return U(f'replace.{leaf}')
                if isinstance(o, D):
                    if leaf == 'get' and args:
                        k = self.expr(args[0], env, guard, depth)
                        if is_const(k):
                            return o.m[k] if k in o.m else (self.expr(args[1], env, guard, depth) if len(args) > 1 else None)
                    if leaf == 'update' and len(args) <= 1:
                        v = self.expr(args[0], env, guard, depth) if args else D()
                        if isinstance(v, D):
                            o.m.update(v.m)
                            for k in e.keywords:
                                if k.arg:
                                    o.m[k.arg] = self.expr(k.value, env, guard, depth)
                            return None
                    if leaf == 'copy':
                        return D(o.m)
                    for k in list(o.m):
                        o.m[k] = U(f'dict.{leaf}')
                    return U(f'dict.{leaf}')
                return U(f'`{norm(e)[:40]}`')
            # method of the own class
            cl = self.own_method(leaf)
            if cl is not None:
                return self.apply(cl, e, env, guard, depth)
            return U(f'`{norm(e)[:40]}`')
        if isinstance(f, ast.Name):
            v = env.get(f.id) if env.has(f.id) else None
            if isinstance(v, Closure):
                return self.apply(v, e, env, guard, depth)
            if leaf == 'join':
                return self.path_join(args, env, guard, depth)
            cl = self.module_func(f.id)
            if cl is not None:
                return self.apply(cl, e, env, guard, depth)
        return U(f'`{norm(e)[:40]}`')

    def str_format(self, fmt: str, vals):
        """'{}-{}'.format(a, b) / '{0}.{1}'.format(a, b) with plain fields only"""
        import string
        parts, auto = [], 0
        try:
            parsed = list(string.Formatter().parse(fmt))
        except ValueError:
            return U('format string')
        for lit, field, spec, conv in parsed:
            if lit:
                parts.append(lit)
            if field is None:
                continue
            if spec or conv:
                return U('format spec')
            if field == '':
                i = auto
                auto += 1
            elif field.isdigit():
                i = int(field)
            else:
                return U('format field')
            if i >= len(vals):
                return U('format arity')
            v = vals[i]
            if isinstance(v, S):
                parts += list(v.parts)
            elif isinstance(v, (Ent, Rep, Inh, str)):
                parts.append(v)
            elif is_const(v):
                parts.append(str(v))
            else:
                parts.append(v if isinstance(v, U) else U('formatted value'))
        return S(_squash(tuple(parts)))

    def path_join(self, args, env, guard, depth):
        out = L()
        for a in args:
            if isinstance(a, ast.Starred):
                v = self.expr(a.value, env, guard, depth)
                if isinstance(v, L):
                    out.items += v.items
                else:
                    out.items.append((frozenset(), U('starred')))
            else:
                out.items.append((frozenset(), self.expr(a, env, guard, depth)))
        return P(out)

    def apply(self, cl: Closure, e, env, guard, depth):
        if depth >= self.max_depth:
            return U('call depth')
        node = cl.node
        a = node.args
        if a.vararg or a.kwarg or any(isinstance(x, ast.Starred) for x in e.args) or any(k.arg is None for k in e.keywords):
            return U('variadic call')
        params = [p.arg for p in a.posonlyargs + a.args]
        sub = Env(cl.env)
        vals = [self.expr(x, env, guard, depth) for x in e.args]
        if cl.bind_self is not None:
            vals = [cl.bind_self] + vals
        if len(vals) > len(params):
            return U('too many arguments')
        for p, v in zip(params, vals):
            sub.set(p, v)
        for k in e.keywords:
            sub.set(k.arg, self.expr(k.value, env, guard, depth))
        dflts = dict(zip(reversed(params), reversed(a.defaults)))
        for p in params:
            if p not in sub.v:
                if p in dflts:
                    sub.set(p, self.expr(dflts[p], Env(), guard, depth))
                else:
                    return U(f'parameter {p} unbound')
        for p, d in zip(a.kwonlyargs, a.kw_defaults):
            if p.arg not in sub.v and d is not None:
                sub.set(p.arg, self.expr(d, Env(), guard, depth))
        r = self.block(node.body, sub, guard, depth + 1)
        return None if r is NORET else r

    # ------------------------------------------------------------------ program look-ups
    def _class_node(self):
        tree = self._module_tree()
        if tree is None:
            return None
        for n in ast.walk(tree):
            if isinstance(n, ast.ClassDef) and any(x is self.fi.node for x in n.body):
                return n
        return None

    def is_own_class(self, name):
        c = self._class_node()
        return c is not None and c.name == name

    def own_method(self, name):
        c = self._class_node()
        if c is None:
            return None
        for n in c.body:
            if isinstance(n, ast.FunctionDef) and n.name == name:
                decos = {norm(d) for d in n.decorator_list}
                bind = None if 'staticmethod' in decos else Prm('self')
                return Closure(n, Env(), self.fi, bind)
        return None

    def class_const(self, e):
        if not (isinstance(e.value, ast.Name) and (e.value.id in ('self', 'cls') or self.is_own_class(e.value.id))):
            return None
        c = self._class_node()
        for n in (c.body if c is not None else []):
            if isinstance(n, ast.Assign) and any(isinstance(t, ast.Name) and t.id == e.attr for t in n.targets):
                try:
                    v = ast.literal_eval(n.value)
                except Exception:
                    return None
                return tuple(v) if isinstance(v, (list, tuple)) else v if is_const(v) else None
        return None

    def _module_tree(self):
        mod = self.prog.modules.get(self.fi.module) if hasattr(self.prog, 'modules') else None
        return getattr(mod, 'tree', None) if mod is not None else None

    def module_const(self, name):
        tree = self._module_tree()
        for n in (tree.body if tree is not None else []):
            if isinstance(n, ast.Assign) and any(isinstance(t, ast.Name) and t.id == name for t in n.targets):
                try:
                    v = ast.literal_eval(n.value)
                except Exception:
                    return U(f'`{name}`')
                return tuple(v) if isinstance(v, (list, tuple)) else v if is_const(v) else U(f'`{name}`')
        return U(f'`{name}`')

    def module_func(self, name):
        tree = self._module_tree()
        for n in (tree.body if tree is not None else []):
            if isinstance(n, ast.FunctionDef) and n.name == name:
                return Closure(n, Env(), self.fi)
        return None


def _clone(v, memo):
    if isinstance(v, L):
        if id(v) not in memo:
            memo[id(v)] = n = L()
            n.items = [(g, _clone(x, memo)) for g, x in v.items]
        return memo[id(v)]
    if isinstance(v, D):
        if id(v) not in memo:
            memo[id(v)] = n = D()
            n.m = {k: _clone(x, memo) for k, x in v.m.items()}
        return memo[id(v)]
    return v


def _squash(parts):
    out = []
    for p in parts:
        if isinstance(p, str) and out and isinstance(out[-1], str):
            out[-1] += p
        elif p != '':
            out.append(p)
    return tuple(out)


def flatten_unknowns(v, acc=None):
    """All U values reachable in a template value."""
    acc = [] if acc is None else acc
    if isinstance(v, U):
        acc.append(v)
    elif isinstance(v, S):
        for p in v.parts:
            flatten_unknowns(p, acc)
    elif isinstance(v, L):
        for g, x in v.items:
            if any(str(k).startswith('?') for k, _ in g):
                acc.append(U('guard not interpreted'))
            flatten_unknowns(x, acc)
    elif isinstance(v, (J, P)):
        flatten_unknowns(v.lst, acc)
    elif isinstance(v, Prm):
        acc.append(U(f'unresolved {v}'))
    return acc


def half_resolved(v, acc=None):
    """Rep / Inh values that reach the template: the entity is taken from one source only."""
    acc = [] if acc is None else acc
    if isinstance(v, (Rep, Inh)):
        acc.append(v)
    elif isinstance(v, S):
        for p in v.parts:
            half_resolved(p, acc)
    elif isinstance(v, L):
        for _, x in v.items:
            half_resolved(x, acc)
    elif isinstance(v, (J, P)):
        half_resolved(v.lst, acc)
    return acc
