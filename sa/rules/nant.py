"""NANT - NaN-taint: arrays that may hold NaN reach only NaN-aware reducers, or are masked first by a mask computed
from the same array.

Abstract value of an expression: (taint roots, mask roots).  A *root* is the variable under which a may-hold-NaN array
entered the function (a parameter, or the result of get_vectors()).  `np.isnan(x)` / `np.isfinite(x)` (and ~, np.all(..,
axis), &, |) give a mask over the roots of x; `x[..., m]` with m a mask over (at least) the roots of x is clean; a mask over
other roots is a *foreign mask*.  NaN-blind reducers applied to a tainted value are violations.
"""
from __future__ import annotations
import ast
from typing import Dict, FrozenSet, List, Optional, Sequence, Set, Tuple

from .common import where, norm

NAN_AWARE = {'nanmean', 'nansum', 'nanstd', 'nanvar', 'nanmin', 'nanmax', 'nanmedian', 'nanprod', 'nanargmin',
             'nanargmax', 'nanquantile', 'nanpercentile', 'nan_to_num', 'nancumsum'}
NAN_BLIND = {'mean', 'sum', 'std', 'var', 'min', 'max', 'median', 'prod', 'einsum', 'dot', 'matmul', 'cov', 'corrcoef',
             'argmax', 'argmin', 'argsort', 'sort', 'solve', 'inv', 'norm', 'cg', 'average', 'quantile', 'percentile',
             'cumsum', 'inner', 'outer', 'trace', 'eigh', 'eigvalsh', 'svd', 'lstsq', 'pinv', 'amax', 'amin'}
MASK_MAKERS = {'isnan', 'isfinite', 'isinf'}
MASK_KEEPERS = {'all', 'any', 'logical_not', 'logical_and', 'logical_or', 'invert', 'where', 'nonzero', 'flatnonzero',
                'concatenate'}
REPO_NAN_AWARE = {'_nan_mean', '_nan_rank_data'}

Val = Tuple[FrozenSet[str], FrozenSet[str]]
CLEAN: Val = (frozenset(), frozenset())


def _leaf(fn):
    if isinstance(fn, ast.Attribute):
        return fn.attr
    if isinstance(fn, ast.Name):
        return fn.id
    return ''


class NanTaint:
    def __init__(self, ctx, q: str, taint_sources: Sequence[str] = (), taint_params: Sequence[str] = (),
                 aware_helpers: Sequence[str] = ()):
        self.ctx = ctx
        self.prog = ctx.prog
        self.q = q
        self.f = ctx.prog.func(q)
        self.sources = set(taint_sources)
        self.taint_params = set(taint_params)
        self.aware = REPO_NAN_AWARE | set(aware_helpers)
        self.sinks: List[Tuple[ast.AST, str]] = []
        self.foreign: List[Tuple[ast.AST, str]] = []
        self.reduced = 0
        self.masked = 0

    def run(self):
        env: Dict[str, Val] = {}
        for p in self.f.params:
            if p in self.taint_params:
                env[p] = (frozenset({p}), frozenset())
        self.block(self.f.node.body, env)
        return self

    # ---------------------------------------------------------------- statements
    def block(self, body, env):
        for s in body:
            self.stmt(s, env)

    def stmt(self, s, env):
        if isinstance(s, (ast.Assign, ast.AnnAssign)):
            if getattr(s, 'value', None) is None:
                return
            v = self.ev(s.value, env)
            tg = s.targets if isinstance(s, ast.Assign) else [s.target]
            for t in tg:
                self.bind(t, v, s.value, env)
        elif isinstance(s, ast.AugAssign):
            v = self.ev(s.value, env)
            if isinstance(s.target, ast.Name):
                old = env.get(s.target.id, CLEAN)
                env[s.target.id] = (old[0] | v[0], old[1] | v[1] if old[1] and v[1] else frozenset())
            else:
                self.ev(s.target, env)
        elif isinstance(s, ast.If):
            self.ev(s.test, env)
            e1, e2 = dict(env), dict(env)
            self.block(s.body, e1)
            self.block(s.orelse, e2)
            for k in set(e1) | set(e2):
                a, b = e1.get(k, CLEAN), e2.get(k, CLEAN)
                env[k] = (a[0] | b[0], a[1] | b[1])
        elif isinstance(s, (ast.For, ast.While)):
            if isinstance(s, ast.For):
                it = self.ev(s.iter, env)
                self.bind(s.target, it, None, env)
            else:
                self.ev(s.test, env)
            for _ in range(2):
                self.block(s.body, env)
            self.block(s.orelse, env)
        elif isinstance(s, ast.Return):
            if s.value is not None:
                self.ev(s.value, env)
        elif isinstance(s, ast.Expr):
            self.ev(s.value, env)
        elif isinstance(s, (ast.With,)):
            self.block(s.body, env)
        elif isinstance(s, ast.Try):
            self.block(s.body, env)
            for h in s.handlers:
                self.block(h.body, env)
            self.block(s.orelse, env)
            self.block(s.finalbody, env)
        elif isinstance(s, (ast.Raise, ast.Assert)):
            for ch in ast.iter_child_nodes(s):
                if isinstance(ch, ast.expr):
                    self.ev(ch, env)

    def bind(self, t, v: Val, rhs, env):
        if isinstance(t, ast.Name):
            env[t.id] = v
        elif isinstance(t, (ast.Tuple, ast.List)):
            if rhs is not None and isinstance(rhs, (ast.Tuple, ast.List)) and len(rhs.elts) == len(t.elts):
                for a, b in zip(t.elts, rhs.elts):
                    self.bind(a, self.ev(b, env), b, env)
            else:
                for a in t.elts:
                    self.bind(a, v, None, env)
        elif isinstance(t, ast.Subscript):
            # x[..] = v: x becomes tainted by v
            r = t.value
            while isinstance(r, (ast.Subscript, ast.Attribute)):
                r = r.value
            if isinstance(r, ast.Name):
                old = env.get(r.id, CLEAN)
                env[r.id] = (old[0] | v[0], old[1])
            self.ev(t.slice, env)

    # --------------------------------------------------------------- expressions
    def ev(self, e, env) -> Val:
        if e is None or isinstance(e, ast.Constant):
            return CLEAN
        if isinstance(e, ast.Name):
            return env.get(e.id, CLEAN)
        if isinstance(e, ast.Attribute):
            if e.attr in ('shape', 'ndim', 'size', 'dtype'):
                self.ev(e.value, env)
                return CLEAN
            return self.ev(e.value, env)
        if isinstance(e, ast.UnaryOp):
            return self.ev(e.operand, env)
        if isinstance(e, ast.BinOp):
            l, r = self.ev(e.left, env), self.ev(e.right, env)
            if isinstance(e.op, ast.MatMult) and (l[0] or r[0]):
                self.sinks.append((e, f'matrix product `{norm(e)[:70]}` on an array that may hold NaN'))
                return CLEAN
            return (l[0] | r[0], l[1] | r[1])
        if isinstance(e, ast.BoolOp):
            out = CLEAN
            for v in e.values:
                x = self.ev(v, env)
                out = (out[0] | x[0], out[1] | x[1])
            return out
        if isinstance(e, ast.Compare):
            l = self.ev(e.left, env)
            for c in e.comparators:
                self.ev(c, env)
            return CLEAN
        if isinstance(e, ast.IfExp):
            self.ev(e.test, env)
            a, b = self.ev(e.body, env), self.ev(e.orelse, env)
            return (a[0] | b[0], a[1] | b[1])
        if isinstance(e, ast.Subscript):
            base = self.ev(e.value, env)
            idx = e.slice
            items = list(idx.elts) if isinstance(idx, ast.Tuple) else [idx]
            mask_roots: Set[str] = set()
            has_mask = False
            for it in items:
                if isinstance(it, ast.Slice):
                    for x in (it.lower, it.upper, it.step):
                        self.ev(x, env)
                    continue
                iv = self.ev(it, env)
                if iv[1]:
                    has_mask = True
                    mask_roots |= iv[1]
            if has_mask and base[0]:
                if base[0] <= mask_roots:
                    self.masked += 1
                    return CLEAN
                self.foreign.append((e, f'`{norm(e)[:70]}`: array over {sorted(base[0])} is masked by a NaN mask computed '
                                        f'from {sorted(mask_roots)}'))
                return base
            return (base[0], base[1])
        if isinstance(e, (ast.Tuple, ast.List, ast.Set)):
            out = CLEAN
            for x in e.elts:
                v = self.ev(x, env)
                out = (out[0] | v[0], out[1] | v[1])
            return out
        if isinstance(e, ast.Dict):
            for x in list(e.keys) + list(e.values):
                self.ev(x, env)
            return CLEAN
        if isinstance(e, (ast.ListComp, ast.GeneratorExp, ast.SetComp)):
            sub = dict(env)
            for g in e.generators:
                it = self.ev(g.iter, sub)
                self.bind(g.target, it, None, sub)
                for c in g.ifs:
                    self.ev(c, sub)
            return self.ev(e.elt, sub)
        if isinstance(e, ast.Starred):
            return self.ev(e.value, env)
        if isinstance(e, ast.JoinedStr):
            return CLEAN
        if isinstance(e, ast.Lambda):
            return CLEAN
        if isinstance(e, ast.Call):
            return self.call(e, env)
        return CLEAN

    def call(self, e: ast.Call, env) -> Val:
        fn = e.func
        nm = _leaf(fn)
        recv = CLEAN
        is_np = isinstance(fn, ast.Attribute) and isinstance(fn.value, ast.Name) and fn.value.id in ('np', 'numpy', 'scipy')
        if isinstance(fn, ast.Attribute) and not is_np:
            recv = self.ev(fn.value, env)
        args = [self.ev(a, env) for a in e.args]
        kws = {k.arg: self.ev(k.value, env) for k in e.keywords}
        allv = [recv] + args + list(kws.values())
        taint = frozenset().union(*[v[0] for v in allv]) if allv else frozenset()
        masks = frozenset().union(*[v[1] for v in allv]) if allv else frozenset()
        if nm in self.sources:
            # fresh may-hold-NaN array: root named after the receiver expression
            return (frozenset({norm(fn.value) if isinstance(fn, ast.Attribute) else nm}), frozenset())
        if nm in MASK_MAKERS:
            return (frozenset(), taint | masks)
        if nm in MASK_KEEPERS and masks and not taint:
            return (frozenset(), masks)
        if nm in NAN_AWARE:
            self.reduced += 1
            return CLEAN
        if nm in self.aware:
            return (taint, frozenset())
        if nm == 'rankdata':
            pol = next((k.value for k in e.keywords if k.arg == 'nan_policy'), None)
            if taint and not (isinstance(pol, ast.Constant) and pol.value in ('omit', 'raise')):
                self.sinks.append((e, f'`{norm(e)[:70]}`: ranking an array that may hold NaN without nan_policy'))
            return (taint, frozenset())
        if nm in NAN_BLIND:
            data_taint = taint
            if data_taint:
                self.sinks.append((e, f'`{norm(e)[:80]}`: NaN-blind reducer `{nm}` applied to an array that may hold NaN '
                                      f'(roots {sorted(data_taint)})'))
            return CLEAN
        return (taint, masks if not taint else frozenset())


def check_function(ctx, obs, q: str, taint_sources: Sequence[str] = (), taint_params: Sequence[str] = (),
                   rule='NANT', aware_helpers: Sequence[str] = ()):
    prog = ctx.prog
    f = prog.func(q)
    nt = NanTaint(ctx, q, taint_sources, taint_params, aware_helpers).run()
    for node, msg in nt.sinks:
        obs.bad(rule, q, 'NaN-bearing arrays reach only NaN-aware reducers: ' + _stable(msg), msg, where(prog, f, node))
    for node, msg in nt.foreign:
        obs.bad(rule, q, 'NaN masks are computed from the array they mask: ' + _stable(msg), msg, where(prog, f, node))
    if not nt.sinks and not nt.foreign:
        obs.ok(rule, q, 'NaN-bearing arrays reach only NaN-aware reducers or are masked by their own mask',
               f'{nt.reduced} nan-aware reductions, {nt.masked} own-mask selections', where(prog, f, f.node))
    return nt


def _stable(msg):
    import re
    m = re.search(r'reducer `(\w+)`', msg)
    if m:
        return f'reducer {m.group(1)}'
    return re.sub(r'`[^`]*`', '', msg)[:80]
