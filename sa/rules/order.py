"""ORD - order-convention typing of "distinct values / group index" arrays.

The library has two conventions for the groups of a descriptor: SORTED (np.unique) and FIRST APPEARANCE (get_unique_unsorted,
get_unique_inverse, average_dataset_by).  An array of per-group rows may only be indexed by a group index that refers to the SAME
order, and values returned together must be in one order.  Orders are words of the free group over permutation symbols:

    ()          sorted order (np.unique)
    (('F',1),)  order of first appearance,  F = argsort(first-occurrence indices)
    any other   garbage (e.g. F^-1: the inverse of the sorting permutation used as if it were the permutation)

Types:  Uniq(o)  distinct values in order o         Inv(o)   per-item index into the groups in order o
        Rows(o)  leading axis = groups in order o   First    first-occurrence indices (aligned with sorted order)
        Perm(w)  a permutation (word w)             Fresh    freshly allocated buffer (np.empty / np.zeros ...)

Typing rules (numpy semantics):
    np.unique(x, return_index, return_inverse, return_counts) -> Uniq(()), First, Inv(()), Rows(())
    First.argsort() / np.argsort(First)      -> Perm(F)            Perm(w).argsort()           -> Perm(w^-1)
    s = np.empty(..); s[Perm(w)] = arange    -> s : Perm(w^-1)     (scatter idiom = inverse permutation)
    Uniq(o)[Perm(w)] -> Uniq(o.w)            Rows(o)[Perm(w)] -> Rows(o.w)
    Perm(w)[Inv(o)]  -> Inv(o.w^-1)          Perm(a)[Perm(b)] -> Perm(a.b)
    A = buffer; for i ..: A[i] = f(.. Inv(o) == i ..)               -> A : Rows(o)
Obligations:
    INDEX   Rows(o1)[Inv(o2)] / Uniq(o1)[Inv(o2)]  requires o1 == o2
    COIDX   inside one loop, `Inv(o1) == i` and `Uniq(o2)[i]` / `Rows(o2)[i]` with the same i require o1 == o2
    RET     order-typed components of one returned tuple agree
Function summaries (return types) are computed by the same rules, callees first.
"""
from __future__ import annotations
import ast
from dataclasses import dataclass
from typing import Dict, List, Optional, Tuple

Word = Tuple[Tuple[str, int], ...]
SORTED: Word = ()
FIRST: Word = (('F', 1),)


def wmul(a: Word, b: Word) -> Word:
    out = list(a)
    for g, e in b:
        if out and out[-1][0] == g and out[-1][1] == -e:
            out.pop()
        else:
            out.append((g, e))
    return tuple(out)


def winv(a: Word) -> Word:
    return tuple((g, -e) for g, e in reversed(a))


def wname(w: Word) -> str:
    if w == SORTED:
        return 'sorted order'
    if w == FIRST:
        return 'order of first appearance'
    return 'order ' + '.'.join(g + ('^-1' if e < 0 else '') for g, e in w) + ' (neither sorted nor first appearance)'


@dataclass(frozen=True)
class T:
    kind: str               # Uniq | Inv | Rows | First | Perm | Fresh | Tuple
    o: Word = ()
    comps: Tuple = ()       # for Tuple

    def __str__(self):
        if self.kind == 'Tuple':
            return '(' + ', '.join(str(c) for c in self.comps) + ')'
        if self.kind in ('First', 'Fresh', 'Items'):
            return self.kind
        return f'{self.kind}[{wname(self.o)}]'


def _leaf(fn):
    return fn.attr if isinstance(fn, ast.Attribute) else (fn.id if isinstance(fn, ast.Name) else '')


def _kw(c: ast.Call, name: str) -> bool:
    for k in c.keywords:
        if k.arg == name and isinstance(k.value, ast.Constant) and k.value.value is True:
            return True
    return False


FRESH_FUNCS = {'empty', 'zeros', 'ones', 'full', 'empty_like', 'zeros_like', 'ones_like', 'full_like'}


class OrderAnalysis:
    """typing of one function; `summaries` maps callee qualified names to their return type"""

    def __init__(self, prog, fi, summaries: Dict[str, Optional[T]], resolve, seed: Optional[Dict[str, T]] = None):
        self.prog, self.fi, self.summ, self.resolve = prog, fi, summaries, resolve
        self.seed = dict(seed or {})
        self.perm_gathers: List[Tuple[Word, ast.AST]] = []
        self._seen_g = set()
        self._seen_f = set()
        self.findings: List[Tuple[str, ast.AST, str, str]] = []   # (rule, node, construct, detail)
        self.checked: List[Tuple[str, ast.AST, str]] = []          # discharged obligations
        self.ret_types: List[Optional[T]] = []
        self.typed_vars = 0

    # ------------------------------------------------------------ expressions
    def ty(self, e: Optional[ast.expr], env: Dict[str, T]) -> Optional[T]:
        if e is None:
            return None
        if isinstance(e, ast.Name):
            return env.get(e.id)
        if isinstance(e, ast.Tuple):
            cs = tuple(self.ty(x, env) for x in e.elts)
            return T('Tuple', comps=cs) if any(c is not None for c in cs) else None
        if isinstance(e, ast.Call):
            return self.ty_call(e, env)
        if isinstance(e, ast.Subscript):
            return self.ty_sub(e, env)
        if isinstance(e, ast.BinOp):
            # nan * np.empty(...) and the like stay fresh buffers
            l, r = self.ty(e.left, env), self.ty(e.right, env)
            for t in (l, r):
                if t is not None and t.kind == 'Fresh':
                    return t
            for t in (l, r):
                if t is not None and t.kind == 'Pos' and isinstance(e.op, (ast.Add, ast.Sub)):
                    return t          # an offset of a position is a position in the same coordinates
            return None
        if isinstance(e, (ast.ListComp, ast.GeneratorExp)) and len(e.generators) == 1:
            g = e.generators[0]
            sub = dict(env)
            it = g.iter
            if isinstance(it, ast.Call) and _leaf(it.func) == 'zip' and isinstance(g.target, (ast.Tuple, ast.List)) \
                    and len(g.target.elts) == len(it.args):
                for t_, a_ in zip(g.target.elts, it.args):
                    self.bind(t_, self._elem(self.ty(a_, env)), sub)
            else:
                self.bind(g.target, self._elem(self.ty(it, env)), sub)
            t = self.ty(e.elt, sub)
            return t if t is not None and t.kind == 'Pos' else None
        if isinstance(e, ast.List) and e.elts:
            ts = [self.ty(x, env) for x in e.elts]
            if all(t is not None and t.kind == 'Pos' for t in ts) and len({t.o for t in ts}) == 1:
                return ts[0]
            return None
        return None

    @staticmethod
    def _elem(t: Optional[T]) -> Optional[T]:
        """type of one element of a container of positions"""
        return t if t is not None and t.kind == 'Pos' else None

    def ty_call(self, c: ast.Call, env) -> Optional[T]:
        nm = _leaf(c.func)
        if nm == 'unique' and isinstance(c.func, ast.Attribute) and isinstance(c.func.value, ast.Name) and c.func.value.id in ('np', 'numpy'):
            comps = [T('Uniq', SORTED)]
            if _kw(c, 'return_index'):
                comps.append(T('First'))
            if _kw(c, 'return_inverse'):
                comps.append(T('Inv', SORTED))
            if _kw(c, 'return_counts'):
                comps.append(T('Rows', SORTED))
            return comps[0] if len(comps) == 1 else T('Tuple', comps=tuple(comps))
        if nm == 'argsort':
            x = c.func.value if isinstance(c.func, ast.Attribute) and not (isinstance(c.func.value, ast.Name) and c.func.value.id in ('np', 'numpy')) \
                else (c.args[0] if c.args else None)
            t = self.ty(x, env)
            if t is not None and t.kind == 'First':
                return T('Perm', FIRST)
            if t is not None and t.kind == 'Perm':
                return T('Perm', winv(t.o))
            if t is None and x is not None:
                # the sorting permutation of some other array: a symbol of its own (S<line>)
                return T('SPerm', ((f'S{getattr(c, "lineno", 0)}', 1),))
            return None
        if nm == 'searchsorted':
            a = c.func.value if isinstance(c.func, ast.Attribute) and not (isinstance(c.func.value, ast.Name) and c.func.value.id in ('np', 'numpy')) \
                else (c.args[0] if c.args else None)
            ta = self.ty(a, env)
            if ta is not None and ta.kind == 'Srt':
                return T('Pos', ta.o)         # positions in the coordinates of the sorted copy
            return None
        if nm == 'arange' and len(c.args) >= 2:
            ts = [self.ty(a, env) for a in c.args[:2]]
            for t in ts:
                if t is not None and t.kind == 'Pos':
                    return t
            return None
        if nm in ('concatenate', 'hstack', 'ravel', 'flatten', 'unique', 'sort', 'sorted') and (c.args or isinstance(c.func, ast.Attribute)):
            x0 = c.args[0] if c.args else c.func.value
            t0 = self.ty(x0, env)
            if t0 is not None and t0.kind == 'Pos':
                return t0
        if nm == 'outer' and isinstance(c.func, ast.Attribute) and isinstance(c.func.value, ast.Attribute) \
                and c.func.value.attr == 'equal' and len(c.args) == 2:
            # np.equal.outer(np.arange(n), inv): row i is the membership mask of group i
            t1 = self.ty(c.args[1], env)
            if t1 is not None and t1.kind == 'Inv':
                return T('Member', t1.o)
        if nm in FRESH_FUNCS:
            return T('Fresh')
        if nm == 'arange' and len(c.args) == 1:
            if any(isinstance(n, ast.Attribute) and n.attr in ('n_rdm', 'n_cond', 'n_obs', 'n_channel', 'n_time') for n in ast.walk(c.args[0])):
                return T('Items')          # one position per item (RDM, condition, observation ...) of a container, in its raw order
            return T('Perm', SORTED)       # the identity permutation
        if nm in ('array', 'asarray', 'copy', 'list', 'tuple') and (c.args or isinstance(c.func, ast.Attribute)):
            x = c.args[0] if c.args else c.func.value
            t = self.ty(x, env)
            return t if t is not None and t.kind in ('Uniq', 'Inv', 'Rows', 'Perm', 'Pos', 'SPerm', 'Srt') else None
        if nm == 'astype' and isinstance(c.func, ast.Attribute):
            t = self.ty(c.func.value, env)
            return t if t is not None and t.kind in ('Inv', 'Perm', 'Pos', 'SPerm') else None
        if nm in ('extract_dict', 'subset_descriptor') and len(c.args) >= 2:
            tp = self.ty(c.args[1], env)
            if tp is not None and tp.kind == 'Pos' and id(c) not in self._seen_f:
                self._seen_f.add(id(c))
                self.findings.append(('POS', c, f'`{ast.unparse(c)[:70]}`: descriptors are selected by positions in their own (raw) order',
                                      f'`{ast.unparse(c.args[1])[:40]}` holds positions in a SORTED copy ({wname(tp.o)}); applied to the '
                                      f'descriptors in their original order they select other entries'))
        q = self.resolve(c)
        if q is not None and q in self.summ:
            return self.summ[q]
        return None

    def ty_sub(self, e: ast.Subscript, env) -> Optional[T]:
        a = self.ty(e.value, env)
        idx = e.slice
        first = idx.elts[0] if isinstance(idx, ast.Tuple) and idx.elts else idx
        b = self.ty(first, env)
        if isinstance(idx, ast.Tuple):
            for it in idx.elts:
                ti = self.ty(it, env) if isinstance(it, ast.Name) else None
                if ti is not None and ti.kind == 'Perm' and isinstance(e.ctx, ast.Load) and id(e) not in self._seen_g:
                    self._seen_g.add(id(e))
                    self.perm_gathers.append((ti.o, e))
        elif b is not None and b.kind == 'Perm' and isinstance(e.ctx, ast.Load) and (a is None or a.kind != 'Perm') \
                and id(e) not in self._seen_g:
            self._seen_g.add(id(e))
            self.perm_gathers.append((b.o, e))
        # positions found in a sorted copy index only that copy (or the sorting permutation, which maps them back)
        items = list(idx.elts) if isinstance(idx, ast.Tuple) else [idx]
        for it in items:
            ti = self.ty(it, env) if isinstance(it, (ast.Name, ast.Subscript, ast.Call, ast.BinOp)) and it is not e else None
            if ti is not None and ti.kind == 'Pos' and id(e) not in self._seen_f:
                ok_base = a is not None and a.kind in ('Srt', 'SPerm') and a.o == ti.o
                self._seen_f.add(id(e))
                con = f'`{ast.unparse(e)[:70]}`: positions index the array whose order they refer to'
                if ok_base:
                    self.checked.append(('POS', e, con))
                    return None if a.kind == 'SPerm' else T('Srt', a.o)
                self.findings.append(('POS', e, con, f'`{ast.unparse(it)[:40]}` holds positions in a SORTED copy ({wname(ti.o)}), '
                                      f'`{ast.unparse(e.value)[:40]}` is in its original order: without mapping the positions back through '
                                      f'the sorting permutation other entries are selected (unless the data happen to be sorted)'))
                return None
        if a is None:
            if b is not None and b.kind == 'SPerm' and not isinstance(idx, ast.Tuple):
                return T('Srt', b.o)         # x[order]: the sorted copy
            return None
        if a.kind == 'Tuple' and isinstance(idx, ast.Constant) and isinstance(idx.value, int) and idx.value < len(a.comps):
            return a.comps[idx.value]
        if b is None:
            # a boolean filter keeps the relative order of what it keeps
            if a.kind in ('Uniq', 'Rows') and isinstance(first, ast.Compare):
                return a
            if a.kind in ('Uniq', 'Rows') and isinstance(idx, ast.Tuple) and all(
                    isinstance(x, ast.Compare) or (isinstance(x, ast.Slice) and x.lower is None and x.upper is None) for x in idx.elts):
                return a
            return None
        if a.kind in ('Uniq', 'Rows') and b.kind == 'Perm':
            return T(a.kind, wmul(a.o, b.o))
        if a.kind == 'Perm' and b.kind == 'Inv':
            return T('Inv', wmul(b.o, winv(a.o)))
        if a.kind == 'Perm' and b.kind == 'Perm':
            return T('Perm', wmul(a.o, b.o))
        if a.kind in ('Uniq', 'Rows') and b.kind == 'Inv':
            con = f'`{ast.unparse(e)[:70]}`: per-group array and group index refer to the same order'
            if id(e) in self._seen_f:
                return None
            self._seen_f.add(id(e))
            if a.o == b.o:
                self.checked.append(('INDEX', e, con))
            else:
                self.findings.append(('INDEX', e, con,
                                      f'`{ast.unparse(e.value)[:50]}` has one row per group in {wname(a.o)}, but the index '
                                      f'`{ast.unparse(first)[:50]}` numbers the groups in {wname(b.o)}: items are paired with the wrong group'))
            return None
        return None

    # -------------------------------------------------------------- statements
    def run(self):
        env: Dict[str, T] = dict(self.seed)
        self.block(self.fi.node.body, env)
        self.final_env = env
        return self

    def bind(self, tgt, t: Optional[T], env):
        if isinstance(tgt, ast.Name):
            if t is None:
                env.pop(tgt.id, None)
            else:
                env[tgt.id] = t
                if t.kind != 'Fresh':
                    self.typed_vars += 1
        elif isinstance(tgt, (ast.Tuple, ast.List)):
            for i, x in enumerate(tgt.elts):
                ct = t.comps[i] if t is not None and t.kind == 'Tuple' and i < len(t.comps) else None
                self.bind(x, ct, env)

    def block(self, body, env):
        for s in body:
            self.stmt(s, env)

    def stmt(self, s, env):
        if isinstance(s, (ast.Assign, ast.AugAssign, ast.Expr, ast.Return)) and getattr(s, 'value', None) is not None:
            # visit nested subscripts (call arguments, displays) for INDEX obligations and permutation gathers
            top = s.value
            for n in ast.walk(top):
                if isinstance(n, ast.Subscript) and n is not top:
                    self.ty_sub(n, env)
        if isinstance(s, ast.Assign):
            t = self.ty(s.value, env)
            for tgt in s.targets:
                if isinstance(tgt, ast.Subscript):
                    self.sub_store(tgt, s.value, env)
                else:
                    self.bind(tgt, t, env)
        elif isinstance(s, ast.AugAssign):
            self.ty(s.value, env)
        elif isinstance(s, ast.Expr):
            self.ty(s.value, env)
        elif isinstance(s, ast.Return):
            t = self.ty(s.value, env)
            self.ret_types.append(t)
            if t is not None and t.kind == 'Tuple':
                os_ = [(i, c) for i, c in enumerate(t.comps) if c is not None and c.kind in ('Uniq', 'Inv', 'Rows')]
                if len(os_) >= 2:
                    con = 'values returned together are in one group order'
                    if len({c.o for _, c in os_}) == 1:
                        self.checked.append(('RET', s, con))
                    else:
                        self.findings.append(('RET', s, con, '`' + ast.unparse(s)[:80] + '` returns ' +
                                              ', '.join(f'component {i}: {c}' for i, c in os_)))
        elif isinstance(s, ast.If):
            e1, e2 = dict(env), dict(env)
            self.scan(s.test, env)
            self.block(s.body, e1)
            self.block(s.orelse, e2)
            env.clear()
            for k in set(e1) & set(e2):
                if e1[k] == e2[k]:
                    env[k] = e1[k]
            # positions in a sorted copy are a MAY property: a value that has this type on one path keeps it (using it on the raw
            # array is wrong on that path)
            for ee in (e1, e2):
                for k, v in ee.items():
                    if v.kind == 'Pos' and k not in env:
                        env[k] = v
        elif isinstance(s, (ast.For, ast.While)):
            if isinstance(s, ast.For):
                self.scan(s.iter, env)
                self.bind(s.target, None, env)
                self.loop(s, env)
            self.block(s.body, env)
            self.block(s.orelse, env)
        elif isinstance(s, ast.With):
            self.block(s.body, env)
        elif isinstance(s, ast.Try):
            self.block(s.body, env)
            for h in s.handlers:
                self.block(h.body, env)
            self.block(s.orelse, env)
            self.block(s.finalbody, env)
        else:
            for ch in ast.iter_child_nodes(s):
                if isinstance(ch, ast.expr):
                    self.scan(ch, env)

    def scan(self, e, env):
        """visit sub-expressions for INDEX obligations"""
        for n in ast.walk(e):
            if isinstance(n, ast.Subscript):
                self.ty_sub(n, env)

    def sub_store(self, tgt: ast.Subscript, value, env):
        # scatter idiom  s[Perm(w)] = np.arange(n)  ->  s = Perm(w^-1)
        if isinstance(tgt.value, ast.Name):
            base = env.get(tgt.value.id)
            it = self.ty(tgt.slice, env)
            if base is not None and base.kind == 'Fresh' and it is not None and it.kind == 'Perm' \
                    and isinstance(value, ast.Call) and _leaf(value.func) == 'arange':
                env[tgt.value.id] = T('Perm', winv(it.o))
                self.typed_vars += 1
                return
        # one-hot scatter  M[np.arange(n), Inv(o)] = 1  ->  the second axis of M lists the groups in order o
        if isinstance(tgt.value, ast.Name) and isinstance(tgt.slice, ast.Tuple) and len(tgt.slice.elts) == 2:
            base = env.get(tgt.value.id)
            t1 = self.ty(tgt.slice.elts[1], env)
            if base is not None and base.kind == 'Fresh' and t1 is not None and t1.kind == 'Inv':
                env[tgt.value.id] = T('Rows', t1.o)
                self.typed_vars += 1
                return
        self.ty(value, env)

    def loop(self, lp: ast.For, env):
        """per-group loops: collect uses of the loop index i: `Inv(o) == i`, `Uniq(o)[i]`, `Rows(o)[i]`, `buf[i] = ...`"""
        ivars = set()
        tgt = lp.target
        if isinstance(tgt, ast.Name):
            ivars.add(tgt.id)
        elif isinstance(tgt, ast.Tuple) and tgt.elts and isinstance(tgt.elts[0], ast.Name) and isinstance(lp.iter, ast.Call) \
                and _leaf(lp.iter.func) == 'enumerate':
            ivars.add(tgt.elts[0].id)
        if not ivars:
            return
        uses: List[Tuple[Word, ast.AST, str]] = []
        if isinstance(lp.iter, ast.Call) and _leaf(lp.iter.func) == 'enumerate' and lp.iter.args:
            te = self.ty(lp.iter.args[0], env)
            if te is not None and te.kind in ('Uniq', 'Rows'):
                uses.append((te.o, lp.iter, f'`{ast.unparse(lp.iter)[:50]}` numbers the groups in {wname(te.o)}'))
        fills: List[Tuple[str, ast.AST]] = []

        def is_i(x):
            return isinstance(x, ast.Name) and x.id in ivars
        for n in ast.walk(lp):
            if isinstance(n, ast.Compare) and len(n.ops) == 1 and isinstance(n.ops[0], ast.Eq):
                l, r = n.left, n.comparators[0]
                for a, b in ((l, r), (r, l)):
                    ta = self.ty(a, env) if not is_i(a) else None
                    if ta is not None and ta.kind == 'Inv' and is_i(b):
                        uses.append((ta.o, n, f'`{ast.unparse(n)[:50]}` selects the items of group i in {wname(ta.o)}'))
            if isinstance(n, ast.Call) and _leaf(n.func) == 'equal' and len(n.args) == 2:
                for a, b in ((n.args[0], n.args[1]), (n.args[1], n.args[0])):
                    ta = self.ty(a, env) if not is_i(a) else None
                    if ta is not None and ta.kind == 'Inv' and is_i(b):
                        uses.append((ta.o, n, f'`{ast.unparse(n)[:50]}` selects the items of group i in {wname(ta.o)}'))
            if isinstance(n, ast.Subscript) and isinstance(n.ctx, ast.Load):
                first = n.slice.elts[0] if isinstance(n.slice, ast.Tuple) and n.slice.elts else n.slice
                if is_i(first):
                    ta = self.ty(n.value, env)
                    if ta is not None and ta.kind in ('Uniq', 'Rows', 'Member'):
                        uses.append((ta.o, n, f'`{ast.unparse(n)[:50]}` reads group i in {wname(ta.o)}'))
            if isinstance(n, (ast.Assign, ast.AugAssign)):
                t0 = n.targets[0] if isinstance(n, ast.Assign) else n.target
                if isinstance(t0, ast.Subscript) and isinstance(t0.value, ast.Name):
                    first = t0.slice.elts[0] if isinstance(t0.slice, ast.Tuple) and t0.slice.elts else t0.slice
                    last = t0.slice.elts[-1] if isinstance(t0.slice, ast.Tuple) and t0.slice.elts else None
                    tb = env.get(t0.value.id)
                    if tb is not None and tb.kind == 'Fresh' and (is_i(first) or (last is not None and is_i(last))):
                        fills.append((t0.value.id, n))
        # the counter of `enumerate(<distinct values>)` numbers the GROUPS: used as a position in the raw (per-item) descriptor it
        # picks the i-th item, which belongs to the i-th group only if every group has one item and the items are in group order
        if isinstance(lp.iter, ast.Call) and _leaf(lp.iter.func) == 'enumerate' and lp.iter.args:
            te = self.ty(lp.iter.args[0], env)
            if te is not None and te.kind == 'Uniq':
                for n in ast.walk(lp):
                    # np.delete(<item positions>, i) / <item positions>[i]: the counter of the distinct values addresses an ITEM
                    cand = None
                    if isinstance(n, ast.Call) and _leaf(n.func) == 'delete' and len(n.args) >= 2 and is_i(n.args[1]):
                        cand = n.args[0]
                    elif isinstance(n, ast.Subscript) and isinstance(n.ctx, ast.Load) and is_i(n.slice):
                        cand = n.value
                    tc = self.ty(cand, env) if cand is not None else None
                    if tc is not None and tc.kind == 'Items' and id(n) not in self._seen_f:
                        self._seen_f.add(id(n))
                        self.findings.append(('RAWIDX', n, 'the group counter is not used as a position among the items',
                                              f'`{ast.unparse(n)[:60]}` addresses item positions with the counter of '
                                              f'`{ast.unparse(lp.iter)[:50]}` (the number of a distinct value in {wname(te.o)}): the item at that '
                                              f'position belongs to that group only if every group has exactly one item and the items are '
                                              f'stored in {wname(te.o)}'))
                    if isinstance(n, ast.Subscript) and isinstance(n.ctx, ast.Load) and is_i(n.slice) and self.ty(n.value, env) is None:
                        base = n.value
                        raw = isinstance(base, ast.Subscript) and isinstance(base.value, ast.Attribute) and base.value.attr.endswith('descriptors')
                        if raw and id(n) not in self._seen_f:
                            self._seen_f.add(id(n))
                            self.findings.append(('RAWIDX', n, 'the group counter is not used as a position in the per-item descriptor',
                                                  f'`{ast.unparse(n)[:60]}` indexes the raw descriptor with the counter of '
                                                  f'`{ast.unparse(lp.iter)[:50]}` (a number of a distinct value in {wname(te.o)}): the item at '
                                                  f'that position belongs to another group unless the descriptor is already ordered that way'))
        orders = {o for o, _, _ in uses}
        if len(uses) >= 2:
            con = 'all per-group uses of the loop index refer to one group order'
            if len(orders) == 1:
                self.checked.append(('COIDX', lp, con))
            else:
                self.findings.append(('COIDX', lp, con, '; '.join(d for _, _, d in uses)[:400]))
        if len(orders) == 1:
            o = next(iter(orders))
            for name, _ in fills:
                env[name] = T('Rows', o)
                self.typed_vars += 1

    def ret_type(self) -> Optional[T]:
        ts = [t for t in self.ret_types]
        if not ts or any(t is None for t in ts):
            return None
        return ts[0] if all(t == ts[0] for t in ts) else None


def analyse_package(ctx, skip=('vis.', 'test.', 'io.petnames')):
    """returns {qname: OrderAnalysis} with summaries propagated to a fixpoint (3 rounds are enough for the call depth in use)"""
    prog = ctx.prog
    summaries: Dict[str, Optional[T]] = {}
    results: Dict[str, OrderAnalysis] = {}
    computed: Dict[str, Optional[T]] = {}
    funcs = {q: f for q, f in prog.functions.items() if not q.startswith(skip)}

    def make_resolver(q):
        r = ctx.dep.result(q)
        by_node = {id(c.node): c for c in r.calls} if r is not None else {}

        def resolve(call):
            cr = by_node.get(id(call))
            if cr is not None and len(cr.callees) == 1:
                return cr.callees[0]
            return None
        return resolve
    resolvers = {q: make_resolver(q) for q in funcs}
    for _ in range(4):
        changed = False
        for q, f in funcs.items():
            a = OrderAnalysis(prog, f, summaries, resolvers[q]).run()
            results[q] = a
            rt = a.ret_type()
            rt = _strip_fresh(rt)
            computed[q] = rt
            # assume / guarantee: callers of a function with a documented order contract are typed with the contract unless the
            # computed type CONTRADICTS it (then the callers see what the function really returns); whether the function meets
            # its contract is a separate obligation (ORD-CONTRACT) at the function, decided from the computed type
            if q in CONTRACTS and _compat3(rt, CONTRACTS[q][0]) != 'bad':
                rt = CONTRACTS[q][0]
            if summaries.get(q) != rt:
                summaries[q] = rt
                changed = True
        if not changed:
            break
    summaries = dict(summaries)
    summaries['<computed>'] = computed
    return results, summaries


def _strip_fresh(t: Optional[T]) -> Optional[T]:
    if t is None or t.kind == 'Fresh':
        return None
    if t.kind == 'Tuple':
        cs = tuple(_strip_fresh(c) for c in t.comps)
        return T('Tuple', comps=cs) if any(c is not None for c in cs) else None
    return t


# ---------------------------------------------------------------------------------------------- reporting helpers
def _analysis(ctx):
    a = getattr(ctx, '_order_analysis', None)
    if a is None:
        a = analyse_package(ctx)
        ctx._order_analysis = a
    return a


def report(ctx, obs, prefixes, rule='ORD'):
    """emit INDEX / COIDX / RET obligations of all functions under the prefixes; returns the number of obligations"""
    from .common import where
    res, _ = _analysis(ctx)
    n = 0
    for q in sorted(res):
        if not q.startswith(tuple(prefixes)):
            continue
        a = res[q]
        fi = ctx.prog.functions[q]
        for r, node, con in a.checked:
            obs.ok(f'{rule}-{r}', q, con, '', where(ctx.prog, fi, node))
            n += 1
        for r, node, con, detail in a.findings:
            obs.bad(f'{rule}-{r}', q, con, detail, where(ctx.prog, fi, node))
            n += 1
    # sites confirmed by hand on the pinned tree: a function that was rewritten so that a site is no longer order-typed still
    # owes the obligation - it is reported as undecided (and counted), never dropped silently
    for q, pinned in sorted(PINNED_SITES.items()):
        if not q.startswith(tuple(prefixes)):
            continue
        fi = ctx.prog.func(q)
        a = res.get(fi.qname)
        got = (len(a.checked) + len(a.findings)) if a is not None else 0
        for k in range(pinned - got):
            obs.unk(f'{rule}-INDEX', q, f'order-typed index site #{got + k + 1} of {q.split(".")[-1]} (pinned tree: {pinned})',
                    'the site is no longer recognised by the order typing (the function was rewritten): not decided',
                    where(ctx.prog, fi, fi.node))
            n += 1
    return n


PINNED_SITES = {
    'data.computations.average_dataset_by': 2,
    'data.dataset.Dataset.split_channel': 1,
    'data.dataset.Dataset.split_obs': 1,
    'data.dataset.TemporalDataset.split_channel': 1,
    'data.dataset.TemporalDataset.split_obs': 1,
    'data.noise.cov_from_unbalanced': 1,
    'util.data_utils.get_unique_inverse': 1,
    'util.matrix.pairwise_contrast_sparse': 3,
}


def contract(ctx, obs, q: str, expected: T, what: str, rule='ORD-CONTRACT'):
    """the return type of q, computed by the typing rules, is the documented one"""
    from .common import where
    from ..model import AnalysisError
    _, summ = _analysis(ctx)
    fi = ctx.prog.func(q)
    got = summ['<computed>'].get(fi.qname)
    con = f'{q.split(".")[-1]} returns {what}'
    if got is None:
        obs.unk(rule, q, con, 'the return value could not be order-typed (construction not recognised)', where(ctx.prog, fi, fi.node))
        return
    verdict = _compat3(got, expected)
    if verdict == 'ok':
        obs.ok(rule, q, con, str(got), where(ctx.prog, fi, fi.node))
    elif verdict == 'unknown':
        obs.unk(rule, q, con, f'only partly order-typed: {got} (construction not recognised for the rest)', where(ctx.prog, fi, fi.node))
    else:
        obs.bad(rule, q, con, f'the function returns {got}; callers rely on {expected}', where(ctx.prog, fi, fi.node))


def _compat3(got: Optional[T], exp: Optional[T]) -> str:
    """'ok' / 'unknown' (some part could not be typed, nothing contradicts) / 'bad' (a typed part contradicts)"""
    if exp is None:
        return 'ok'
    if got is None:
        return 'unknown'
    if exp.kind == 'Tuple':
        if got.kind != 'Tuple' or len(got.comps) != len(exp.comps):
            return 'unknown'
        vs = [_compat3(g, e) for g, e in zip(got.comps, exp.comps)]
        if 'bad' in vs:
            return 'bad'
        return 'unknown' if 'unknown' in vs else 'ok'
    if got.kind != exp.kind:
        return 'bad' if got.kind in ('Uniq', 'Inv', 'Rows') and exp.kind in ('Uniq', 'Inv', 'Rows') else 'unknown'
    return 'ok' if got.o == exp.o else 'bad'


def _compatible(got: T, exp: T) -> bool:
    if exp.kind == 'Tuple':
        if got.kind != 'Tuple' or len(got.comps) != len(exp.comps):
            return False
        return all(e is None or (g is not None and _compatible(g, e)) for g, e in zip(got.comps, exp.comps))
    return got.kind == exp.kind and got.o == exp.o


UNIQ_FIRST = T('Uniq', FIRST)
INV_FIRST = T('Inv', FIRST)
ROWS_FIRST = T('Rows', FIRST)
CONTRACTS = {
    'util.data_utils.get_unique_unsorted': (UNIQ_FIRST, 'the distinct values in order of first appearance'),
    'util.data_utils.get_unique_inverse': (T('Tuple', comps=(UNIQ_FIRST, INV_FIRST)),
                                            'the distinct values in order of first appearance and, for every item, its index in that list'),
    'data.computations.average_dataset_by': (T('Tuple', comps=(ROWS_FIRST, UNIQ_FIRST, ROWS_FIRST)),
                                             'per-group means, labels and counts, all in order of first appearance'),
    'util.matrix.indicator': (T('Rows', SORTED), 'one column per distinct value in sorted order'),
}


def contracts(ctx, obs, names):
    for q in names:
        exp, what = CONTRACTS[q]
        contract(ctx, obs, q, exp, what)
