"""AXIS (scalar-factor part): which size factors (1/n_channel ...) an estimator's result carries.

A value is abstracted to a *factor*: a map  axis-symbol -> integer exponent  (e.g. {'chan': -1}) or None (unknown).
Axis symbols come from a declared role table for the sources the kernels read (measurement matrices have axes
(cond|obs, chan)); `X.shape[k]` / `len(X)` / `ds.n_channel` evaluate to an axis symbol by following elementwise
operations back to such a source through single reaching definitions.  Only a *definite* mismatch is a violation;
anything outside the understood operations is `undecided`.
"""
from __future__ import annotations
import ast
from typing import Dict, Optional, Tuple

from ..flow import FuncResult
from .common import calls_to, bound_args, where, norm

Factor = Optional[Dict[str, int]]

# role table: call / attribute sources -> axes
SOURCE_CALL_AXES = {
    '_parse_input': {0: ('cond', 'chan')},
    'average_dataset_by': {0: ('cond', 'chan')},
}
ATTR_AXES = {'measurements': ('obs', 'chan')}
SIZE_ATTRS = {'n_channel': 'chan', 'n_obs': 'obs'}
PARAM_AXES = {
    'rdm.calc._calc_rdm_crossnobis_single': {'meas1': ('cond', 'chan'), 'meas2': ('cond', 'chan'),
                                             'noise': ('chan', 'chan')},
}
SHAPE_PRESERVING_CALLS = {'log', 'exp', 'sqrt', 'abs', 'asarray', 'array', 'copy', 'ensure_double', 'float64',
                          'nan_to_num', 'ascontiguousarray'}
PASS_THROUGH_CALLS = {'_extract_triu_', '_check_noise', 'expand_dims', 'diag', 'array', 'asarray', 'squeeze', 'copy', 'transpose',
                      'atleast_2d', 'diagonal'}


class ScaleEval:
    def __init__(self, ctx, q: str, res: Optional[FuncResult] = None):
        self.ctx = ctx
        self.prog = ctx.prog
        self.q = q
        self.f = ctx.prog.func(q)
        self.res = res or ctx.dep.result(q)
        self.depth = 0

    # -- following names to their single definition
    def def_of(self, name: ast.Name):
        ids = self.res.load_defs.get(id(name))
        if not ids or len(ids) != 1:
            return None
        return self.res.defs[next(iter(ids))]

    def _unpack_index(self, d, var) -> Optional[int]:
        node = d.node
        if isinstance(node, ast.Assign) and len(node.targets) == 1 and isinstance(node.targets[0], (ast.Tuple, ast.List)):
            for i, t in enumerate(node.targets[0].elts):
                if isinstance(t, ast.Name) and t.id == var:
                    return i
        return None

    # -- axes of an array expression
    def axes(self, e: ast.expr, depth=0) -> Optional[Tuple[str, ...]]:
        if depth > 12:
            return None
        if isinstance(e, ast.Name):
            return self._def_value(self.def_of(e), e.id, 'axes', depth)
        if isinstance(e, ast.Attribute):
            if e.attr == 'T':
                a = self.axes(e.value, depth + 1)
                return tuple(reversed(a)) if a else None
            if e.attr in ATTR_AXES:
                return ATTR_AXES[e.attr]
            return None
        if isinstance(e, ast.Subscript):
            # call(...)[0] of a source call
            if isinstance(e.value, ast.Call):
                nm = _leaf(e.value.func)
                k = e.slice.value if isinstance(e.slice, ast.Constant) and isinstance(e.slice.value, int) else None
                if k is not None:
                    return SOURCE_CALL_AXES.get(nm, {}).get(k)
            return None
        if isinstance(e, ast.BinOp):
            if isinstance(e.op, ast.MatMult):
                l, r = self.axes(e.left, depth + 1), self.axes(e.right, depth + 1)
                if l and r and len(l) == 2 and len(r) == 2:
                    return (l[0], r[1])
                return None
            l, r = self.axes(e.left, depth + 1), self.axes(e.right, depth + 1)
            return l or r
        if isinstance(e, ast.Call):
            nm = _leaf(e.func)
            if nm in SHAPE_PRESERVING_CALLS and e.args:
                return self.axes(e.args[0], depth + 1)
            if nm in SOURCE_CALL_AXES:
                return None
        return None

    def _prev_def(self, d):
        ids = self.res.aug_prev.get(d.did)
        if not ids or len(ids) != 1:
            return None
        return self.res.defs[next(iter(ids))]

    def _def_value(self, d, var, want, depth):
        """evaluate `want` (self.axes | self.factor) for the value produced by definition d of var"""
        if d is None:
            return None
        if d.kind == 'param':
            return PARAM_AXES.get(self.q, {}).get(var) if want == 'axes' else {}
        if d.kind == 'assign' and isinstance(d.node, (ast.Assign, ast.AnnAssign)):
            rhs = d.node.value
            k = self._unpack_index(d, var)
            if k is not None:
                if isinstance(rhs, ast.Call) and _leaf(rhs.func) in SOURCE_CALL_AXES:
                    ax = SOURCE_CALL_AXES[_leaf(rhs.func)].get(k)
                    return ax if want == 'axes' else ({} if ax else None)
                return None
            return self.axes(rhs, depth + 1) if want == 'axes' else self.factor(rhs, depth + 1)
        if d.kind == 'aug' and isinstance(d.node, ast.AugAssign):
            prev = self._prev_def(d)
            if want == 'axes':
                return self._def_value(prev, var, 'axes', depth + 1)
            pf = self._def_value(prev, var, 'factor', depth + 1)
            if pf is None:
                return None
            op = d.node.op
            if isinstance(op, (ast.Add, ast.Sub)):
                # x -= mean(x): homogeneous if the subtrahend has the same factor or is a reduction of x itself
                rf = self.factor(d.node.value, depth + 1)
                return pf if (rf is None and _mentions(d.node.value, var)) or rf == pf else None
            if isinstance(op, ast.Div):
                sz = self.size(d.node.value)
                if sz == '?':
                    return None
                rf = {sz: 1} if sz else self.factor(d.node.value, depth + 1)
                return _mul(pf, _inv(rf)) if rf is not None else None
            if isinstance(op, ast.Mult):
                sz = self.size(d.node.value)
                if sz == '?':
                    return None
                rf = {sz: 1} if sz else self.factor(d.node.value, depth + 1)
                return _mul(pf, rf) if rf is not None else None
            return None
        return None

    def _axes_before_aug(self, d, depth):
        return self._def_value(self._prev_def(d), d.var, 'axes', depth)

    # -- size symbol of a scalar expression (X.shape[k], len(X), ds.n_channel)
    def size(self, e: ast.expr, depth=0) -> Optional[str]:
        if depth > 8:
            return None
        if isinstance(e, ast.Subscript) and isinstance(e.value, ast.Attribute) and e.value.attr == 'shape':
            k = e.slice.value if isinstance(e.slice, ast.Constant) and isinstance(e.slice.value, int) else None
            a = self.axes(e.value.value)
            if a is None or k is None:
                return '?'
            if -len(a) <= k < len(a):
                return a[k]
            return '?'
        if isinstance(e, ast.Attribute) and e.attr in SIZE_ATTRS:
            return SIZE_ATTRS[e.attr]
        if isinstance(e, ast.Call) and isinstance(e.func, ast.Name) and e.func.id == 'len' and e.args:
            a = self.axes(e.args[0])
            return a[0] if a else '?'
        if isinstance(e, ast.Name):
            d = self.def_of(e)
            if d is not None and d.kind == 'assign' and isinstance(d.node, ast.Assign) \
                    and self._unpack_index(d, e.id) is None:
                return self.size(d.node.value, depth + 1)
            return None
        return None

    # -- element factor of an accumulator list: all values appended to `name` in this function
    def elem_factor(self, name: str, depth=0) -> Factor:
        facs = []
        for n in ast.walk(self.f.node):
            if isinstance(n, ast.Call) and isinstance(n.func, ast.Attribute) and n.func.attr == 'append' \
                    and isinstance(n.func.value, ast.Name) and n.func.value.id == name and n.args:
                facs.append(self.factor(n.args[0], depth + 1))
        if not facs or any(f is None for f in facs) or any(f != facs[0] for f in facs):
            return None
        return facs[0]

    def _stack_name(self, e: ast.expr) -> Optional[str]:
        """X, np.array(X), np.stack(X) ... where X is (a re-binding of) an accumulator list"""
        if isinstance(e, ast.Call) and _leaf(e.func) in ('array', 'asarray', 'stack', 'vstack') and e.args:
            return self._stack_name(e.args[0])
        if isinstance(e, ast.Name):
            d = self.def_of(e)
            if d is not None and d.kind == 'assign' and isinstance(d.node, ast.Assign) \
                    and self._unpack_index(d, e.id) is None:
                inner = self._stack_name(d.node.value)
                if inner:
                    return inner
            return e.id
        return None

    def _mean_axis0(self, e: ast.expr, depth) -> Factor:
        """sum-over-axis-0(X) / X.shape[0]  or  np.mean(X, axis=0): factor of the elements of X"""
        num = den = None
        if isinstance(e, ast.BinOp) and isinstance(e.op, ast.Div):
            l, r = e.left, e.right
            red = None
            if isinstance(l, ast.Call):
                nm = _leaf(l.func)
                if nm == 'einsum' and len(l.args) == 2 and isinstance(l.args[0], ast.Constant) \
                        and str(l.args[0].value).replace(' ', '') in ('ij->j', 'i...->...'):
                    red = l.args[1]
                elif nm in ('sum', 'nansum') and _kw_int(l, 'axis') == 0:
                    red = l.args[0] if l.args else (l.func.value if isinstance(l.func, ast.Attribute) else None)
            cnt = None
            if isinstance(r, ast.Subscript) and isinstance(r.value, ast.Attribute) and r.value.attr == 'shape' \
                    and isinstance(r.slice, ast.Constant) and isinstance(r.slice.value, int):
                if r.slice.value == 0:
                    cnt = r.value.value
                elif red is not None and self._stack_name(red) and self._stack_name(red) == self._stack_name(r.value.value):
                    # sum over axis 0 of a stack divided by the extent of another axis of the same stack
                    ef = self.elem_factor(self._stack_name(red), depth)
                    if ef is not None:
                        return _mul(_mul(ef, {'stack0': 1}), {'stack%d' % r.slice.value: -1})
            elif isinstance(r, ast.Call) and isinstance(r.func, ast.Name) and r.func.id == 'len' and r.args:
                cnt = r.args[0]
            if red is not None and cnt is not None:
                a, b = self._stack_name(red), self._stack_name(cnt)
                if a and a == b:
                    return self.elem_factor(a, depth)
        if isinstance(e, ast.Call) and _leaf(e.func) in ('mean', 'nanmean') and _kw_int(e, 'axis') == 0:
            src = e.args[0] if e.args else (e.func.value if isinstance(e.func, ast.Attribute) else None)
            a = self._stack_name(src) if src is not None else None
            if a:
                return self.elem_factor(a, depth)
        return None

    # -- factor of a value expression
    def factor(self, e: ast.expr, depth=0) -> Factor:
        if depth > 25:
            return None
        m = self._mean_axis0(e, depth)
        if m is not None:
            return m
        if isinstance(e, ast.Constant):
            return {} if isinstance(e.value, (int, float)) else None
        if isinstance(e, ast.Name):
            return self._def_value(self.def_of(e), e.id, 'factor', depth)
        if isinstance(e, ast.Attribute):
            if e.attr == 'T':
                return self.factor(e.value, depth + 1)
            if e.attr in ATTR_AXES:
                return {}
            return None
        if isinstance(e, ast.Subscript):
            if isinstance(e.value, ast.Call) and _leaf(e.value.func) in SOURCE_CALL_AXES:
                return {}
            return self.factor(e.value, depth + 1)
        if isinstance(e, ast.UnaryOp):
            return self.factor(e.operand, depth + 1)
        if isinstance(e, ast.BinOp):
            if isinstance(e.op, ast.Div):
                l = self.factor(e.left, depth + 1)
                sz = self.size(e.right)
                if sz is None:
                    r = self.factor(e.right, depth + 1)
                    if l is None or r is None:
                        return None
                    return _mul(l, _inv(r))
                if sz == '?' or l is None:
                    return None
                return _mul(l, {sz: -1})
            if isinstance(e.op, (ast.Mult, ast.MatMult)):
                szl, szr = self.size(e.left), self.size(e.right)
                l = {szl: 1} if szl not in (None, '?') else (None if szl == '?' else self.factor(e.left, depth + 1))
                r = {szr: 1} if szr not in (None, '?') else (None if szr == '?' else self.factor(e.right, depth + 1))
                if l is None or r is None:
                    return None
                return _mul(l, r)
            if isinstance(e.op, (ast.Add, ast.Sub)):
                l, r = self.factor(e.left, depth + 1), self.factor(e.right, depth + 1)
                if l is None or r is None:
                    return None
                # prior terms (constants/params) have factor {}: sum is homogeneous only if equal
                return l if l == r else None
            if isinstance(e.op, ast.Pow):
                l = self.factor(e.left, depth + 1)
                if l is None:
                    return None
                if isinstance(e.right, ast.Constant) and isinstance(e.right.value, int):
                    return {k: v * e.right.value for k, v in l.items()}
                return None if l else {}
            return None
        if isinstance(e, ast.Call):
            nm = _leaf(e.func)
            if nm in PASS_THROUGH_CALLS and e.args:
                return self.factor(e.args[0], depth + 1)
            if nm in ('log', 'exp') and e.args:
                l = self.factor(e.args[0], depth + 1)
                return {} if l == {} else None
            if nm == 'sqrt' and e.args:
                l = self.factor(e.args[0], depth + 1)
                if l is None or any(v % 2 for v in l.values()):
                    return None
                return {k: v // 2 for k, v in l.items()}
            if nm in ('dot', 'matmul', 'inner', 'outer') and len(e.args) >= 2:
                l, r = self.factor(e.args[0], depth + 1), self.factor(e.args[1], depth + 1)
                return _mul(l, r) if l is not None and r is not None else None
            if nm == 'einsum' and len(e.args) >= 2:
                out: Factor = {}
                for a in e.args[1:]:
                    fa = self.factor(a, depth + 1)
                    if fa is None:
                        return None
                    out = _mul(out, fa)
                return out
            if nm == 'sum' and e.args:
                return self.factor(e.args[0], depth + 1)
            if nm == 'mean' and (e.args or isinstance(e.func, ast.Attribute)):
                return None
            if nm in SOURCE_CALL_AXES:
                return None
            # repo helper with a known summary
            q = 'rdm.calc.' + nm
            if q in RETURN_SUMMARIES and self.prog.has_func(q) and q != self.q:
                return return_factor(self.ctx, q)
            return None
        if isinstance(e, (ast.List, ast.Tuple)) and len(e.elts) == 1:
            return self.factor(e.elts[0], depth + 1)
        return None


RETURN_SUMMARIES = {'rdm.calc._calc_rdm_crossnobis_single'}
_ret_cache: Dict[Tuple[int, str], Factor] = {}


def return_factor(ctx, q: str) -> Factor:
    key = (id(ctx), q)
    if key not in _ret_cache:
        _ret_cache[key] = None
        ev = ScaleEval(ctx, q)
        facs = [ev.factor(n.value) for n, _, _ in ev.res.returns if n is not None and n.value is not None]
        _ret_cache[key] = facs[0] if facs and all(f is not None and f == facs[0] for f in facs) else None
    return _ret_cache[key]


def _kw_int(c: ast.Call, name: str):
    for k in c.keywords:
        if k.arg == name and isinstance(k.value, ast.Constant):
            return k.value.value
    return None


def _mentions(e: ast.expr, var: str) -> bool:
    return any(isinstance(n, ast.Name) and n.id == var for n in ast.walk(e))


def _leaf(fn: ast.expr) -> str:
    if isinstance(fn, ast.Attribute):
        return fn.attr
    if isinstance(fn, ast.Name):
        return fn.id
    return ''


def _mul(a: Dict[str, int], b: Dict[str, int]) -> Dict[str, int]:
    out = dict(a)
    for k, v in b.items():
        out[k] = out.get(k, 0) + v
        if out[k] == 0:
            del out[k]
    return out


def _inv(a: Dict[str, int]) -> Dict[str, int]:
    return {k: -v for k, v in a.items()}


EXPECTED = {
    'rdm.calc.calc_rdm_euclidean': {'chan': -1},
    'rdm.calc.calc_rdm_mahalanobis': {'chan': -1},
    'rdm.calc.calc_rdm_poisson': {'chan': -1},
    'rdm.calc.calc_rdm_correlation': {},
}


def _fmt(f: Factor) -> str:
    if f is None:
        return 'unknown'
    if not f:
        return '1 (no size factor)'
    return ' * '.join(f'n_{k}^{v}' for k, v in sorted(f.items()))


def check_value_at_build(ctx, obs, q: str, expected: Dict[str, int], rule='SCALE', what='utv'):
    prog = ctx.prog
    f = prog.func(q)
    r = ctx.dep.result(q)
    ev = ScaleEval(ctx, q, r)
    sites = calls_to(r, 'util.build_rdm._build_rdms')
    if not sites:
        obs.unk(rule, q, 'size factor of the value handed to _build_rdms', 'no _build_rdms call')
        return
    for c in sites:
        b = bound_args(prog, 'util.build_rdm._build_rdms', c)
        if 'utv' not in b or b['utv'][0] is None:
            obs.unk(rule, q, 'size factor of the value handed to _build_rdms', 'utv argument not found')
            continue
        fac = ev.factor(b['utv'][0])
        con = f'value handed to _build_rdms carries the factor {_fmt(expected)}'
        if fac is None:
            obs.unk(rule, q, con, f'factor of `{norm(b["utv"][0])}` not computable from understood operations')
        else:
            obs.check(fac == expected, rule, q, con,
                      f'the dissimilarity handed to _build_rdms carries the size factor {_fmt(fac)}; the documented '
                      f'normalisation is {_fmt(expected)} (division by the number of channels, exactly once)',
                      f'factor = {_fmt(fac)}', where(prog, f, c.node))


def check_return(ctx, obs, q: str, expected: Dict[str, int], rule='SCALE'):
    prog = ctx.prog
    f = prog.func(q)
    r = ctx.dep.result(q)
    ev = ScaleEval(ctx, q, r)
    fac_all = []
    for node, _, _ in r.returns:
        if node is None or node.value is None:
            continue
        fac = ev.factor(node.value)
        con = f'return value carries the factor {_fmt(expected)}'
        if fac is None:
            obs.unk(rule, q, con, f'factor of `{norm(node.value)}` not computable')
        else:
            obs.check(fac == expected, rule, q, con,
                      f'returned value carries the size factor {_fmt(fac)}, expected {_fmt(expected)}',
                      f'factor = {_fmt(fac)}', where(prog, f, node))
        fac_all.append(fac)
    return fac_all


def check_estimators(ctx, obs):
    for q, exp in EXPECTED.items():
        if q == 'rdm.calc.calc_rdm_mahalanobis':
            # precision matrix: factor-neutral parameter
            pass
        check_value_at_build(ctx, obs, q, exp)
