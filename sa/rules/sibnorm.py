"""SIB-norm - sibling implementations of one computation normalise their operands alike, method by method.

`fit_regress` and `fit_regress_nn` set up the same least-squares problem (regressors from the model, target from the pooled
data) and must centre / whiten the two operands identically for every method; `util.pooling.pool_rdm` and
`util.inference_util.pool_rdm` normalise the RDM stack alike.  For each method string m the function is partially evaluated
(conditions on the method, and on flags computed from it, are resolved; everything else keeps both arms) and the CENTRING
operations on the path are collected as (operand role, kind): operand role = which input the centred variable descends from
(`data`, `model`, ...; by lineage through assignments and positional tuple results), kind = 'centre' (x - mean(x ..)).  The spelling
does not matter (`x - np.mean(x, 1, keepdims=True)`, `x -= x.mean(..)`, np.nanmean).  Siblings whose signatures differ for a
method are a violation; paths with unresolved structure are undecided."""
from __future__ import annotations
import ast
from typing import Dict, Optional, Set, Tuple

from .common import norm, where

MEAN = {'mean', 'nanmean', 'average'}


def _leaf(fn):
    return fn.attr if isinstance(fn, ast.Attribute) else (fn.id if isinstance(fn, ast.Name) else '')


def _root(e):
    while isinstance(e, (ast.Subscript, ast.Attribute)):
        e = e.value
    if isinstance(e, ast.Call) and isinstance(e.func, ast.Attribute) and e.func.attr in ('copy', 'astype', 'get_vectors'):
        return _root(e.func.value)
    return e.id if isinstance(e, ast.Name) else None


class PathEval:
    def __init__(self, fn: ast.FunctionDef, var: str, value, role_params: Dict[str, str]):
        self.fn, self.var, self.value = fn, var, value
        self.env: Dict[str, object] = {var: value}
        self.roles: Dict[str, Set[str]] = {p: {r} for p, r in role_params.items()}
        self.sig: Set[Tuple[str, str]] = set()
        self.open = False        # a condition on something else than the method was met: both arms were walked

    # -- constant evaluation over {method, flags computed from it}
    def const(self, e):
        if isinstance(e, ast.Constant):
            return e.value
        if isinstance(e, ast.Name) and e.id in self.env:
            return self.env[e.id]
        if isinstance(e, (ast.Tuple, ast.List, ast.Set)):
            vals = [self.const(x) for x in e.elts]
            return None if any(v is None and not (isinstance(x, ast.Constant) and x.value is None) for v, x in zip(vals, e.elts)) else tuple(vals)
        if isinstance(e, ast.UnaryOp) and isinstance(e.op, ast.Not):
            v = self.const(e.operand)
            return None if v is None else (not v)
        if isinstance(e, ast.BoolOp):
            vals = [self.const(v) for v in e.values]
            if isinstance(e.op, ast.And):
                if any(v is False for v in vals):
                    return False
                return None if any(v is None for v in vals) else True
            if any(v is True for v in vals):
                return True
            return None if any(v is None for v in vals) else False
        if isinstance(e, ast.Compare) and len(e.ops) == 1:
            l, r = self.const(e.left), self.const(e.comparators[0])
            if l is None or r is None:
                return None
            op = e.ops[0]
            try:
                if isinstance(op, ast.Eq):
                    return l == r
                if isinstance(op, ast.NotEq):
                    return l != r
                if isinstance(op, ast.In):
                    return l in r
                if isinstance(op, ast.NotIn):
                    return l not in r
            except TypeError:
                return None
        if isinstance(e, ast.Call) and _leaf(e.func) in ('endswith', 'startswith') and isinstance(e.func, ast.Attribute) and len(e.args) == 1:
            l, r = self.const(e.func.value), self.const(e.args[0])
            if isinstance(l, str) and isinstance(r, (str, tuple)):
                return getattr(l, e.func.attr)(r)
        return None

    def role_of(self, e) -> Set[str]:
        out: Set[str] = set()
        for n in ast.walk(e):
            if isinstance(n, ast.Name) and n.id in self.roles:
                out |= self.roles[n.id]
        return out

    def assign(self, t, v):
        if isinstance(t, ast.Name):
            c = self.const(v)
            if c is not None and not isinstance(v, ast.Name):
                self.env[t.id] = c
            else:
                self.env.pop(t.id, None)
            self.roles[t.id] = self.role_of(v)
            self.centring(t.id, v)
        elif isinstance(t, (ast.Tuple, ast.List)):
            if isinstance(v, (ast.Tuple, ast.List)) and len(v.elts) == len(t.elts):
                for a, b in zip(t.elts, v.elts):
                    self.assign(a, b)
            elif isinstance(v, ast.Call) and len(v.args) >= 1:
                # positional lineage: component k of the result descends from argument k (parsers / splitters return their operands
                # in order), the remaining components from all arguments
                for k, a in enumerate(t.elts):
                    if isinstance(a, ast.Name):
                        self.roles[a.id] = self.role_of(v.args[k]) if k < len(v.args) else self.role_of(v)
                        self.env.pop(a.id, None)
            else:
                for a in t.elts:
                    if isinstance(a, ast.Name):
                        self.roles[a.id] = self.role_of(v)
                        self.env.pop(a.id, None)

    def centring(self, target: str, v, aug=False):
        """target = X - <.. mean(X' ..) ..>  with X' rooted at X (or at target for the in-place form)"""
        if aug:
            left_root, right = target, v
        elif isinstance(v, ast.BinOp) and isinstance(v.op, ast.Sub):
            left_root, right = _root(v.left), v.right
        else:
            return
        if left_root is None:
            return
        for c in ast.walk(right):
            if isinstance(c, ast.Call) and _leaf(c.func) in MEAN:
                is_np = isinstance(c.func, ast.Attribute) and isinstance(c.func.value, ast.Name) and c.func.value.id in ('np', 'numpy')
                operand = (c.args[0] if c.args else None) if is_np or isinstance(c.func, ast.Name) else c.func.value
                if operand is not None and _root(operand) in (left_root, target):
                    for r in (self.roles.get(left_root) or {'?'}):
                        self.sig.add((r, 'centre'))

    def walk(self, stmts) -> bool:
        """returns True when the path ended (return / raise)"""
        for s in stmts:
            if isinstance(s, (ast.Return, ast.Raise)):
                return True
            if isinstance(s, ast.Assign):
                for t in s.targets:
                    self.assign(t, s.value)
            elif isinstance(s, ast.AnnAssign) and s.value is not None:
                self.assign(s.target, s.value)
            elif isinstance(s, ast.AugAssign) and isinstance(s.target, ast.Name):
                if isinstance(s.op, ast.Sub):
                    self.centring(s.target.id, s.value, aug=True)
                self.env.pop(s.target.id, None)
            elif isinstance(s, ast.If):
                c = self.const(s.test)
                if c is True:
                    if self.walk(s.body):
                        return True
                elif c is False:
                    if self.walk(s.orelse):
                        return True
                else:
                    names = {n.id for n in ast.walk(s.test) if isinstance(n, ast.Name)}
                    if self.var in names:
                        self.open = True
                    e0, r0 = dict(self.env), {k: set(v) for k, v in self.roles.items()}
                    sig0 = set(self.sig)
                    end1 = self.walk(s.body)
                    e1, r1, sig1 = self.env, self.roles, self.sig
                    self.env, self.roles, self.sig = dict(e0), {k: set(v) for k, v in r0.items()}, set(sig0)
                    end2 = self.walk(s.orelse)
                    if sig1 != self.sig:
                        # normalisation under a condition that is not a function of the method: cannot be summarised per method
                        self.open = True
                    self.sig |= sig1
                    self.env = {k: v for k, v in self.env.items() if e1.get(k) == v}
                    for k, v in r1.items():
                        self.roles[k] = self.roles.get(k, set()) | v
                    if end1 and end2:
                        return True
            elif isinstance(s, (ast.For, ast.While)):
                self.walk(s.body)
            elif isinstance(s, ast.With):
                if self.walk(s.body):
                    return True
            elif isinstance(s, ast.Try):
                self.walk(s.body)
        return False


def signature(fn: ast.FunctionDef, var: str, value, role_params: Dict[str, str]):
    pe = PathEval(fn, var, value, role_params)
    body = fn.body
    pe.walk(body)
    return pe.sig, pe.open


def compare_siblings(ctx, obs, qa: str, qb: str, var: str, values, role_params: Dict[str, str], rule='SIB-norm', what='operands'):
    prog = ctx.prog
    fa, fb = prog.func(qa), prog.func(qb)
    n = 0
    for m in values:
        sa, oa = signature(fa.node, var, m, role_params)
        sb, ob = signature(fb.node, var, m, role_params)
        n += 1
        con = f'for {var}={m!r} {qa.split(".")[-1]} and {qb.split(".")[-1]} centre the same {what}'
        if oa or ob or any(r == '?' for r, _ in sa | sb):
            obs.unk(rule, qb, con, f'{sorted(sa)} / {sorted(sb)} (path not fully resolved)', where(prog, fb, fb.node))
        elif sa == sb:
            obs.ok(rule, qb, con, f'{sorted(sa)}', where(prog, fb, fb.node))
        else:
            only_a, only_b = sorted(sa - sb), sorted(sb - sa)
            obs.bad(rule, qb, con, f'{qa.split(".")[-1]}: {sorted(sa)}, {qb.split(".")[-1]}: {sorted(sb)} - '
                    f'{"only the first centres " + str([r for r, _ in only_a]) if only_a else ""}'
                    f'{"only the second centres " + str([r for r, _ in only_b]) if only_b else ""}: the two fitters solve different '
                    f'problems for this measure', where(prog, fa if only_b else fb, (fa if only_b else fb).node))
    return n
