"""E5 - Cython lowering: turn the subset of Cython used by cengine/similarity.pyx into a Python `ast` module plus a
declaration side-table.  Anything outside the subset raises AnalysisError (fail closed, never a silent pass).

Lowering steps (line-regular):
  * `cimport ...`, `ctypedef ...`, `@cython.*` decorators, `cnp.import_array()`      -> dropped
  * `cdef|cpdef <ret-type> name(<typed params>):` (possibly over several lines)       -> `def name(params):`, C types recorded
  * `cdef:` blocks and one-line `cdef <type> a, b = e`                                 -> assignments (or nothing), types recorded
  * casts `<T> e`, `<T [:(k)]> e`                                                      -> `e`, cast recorded
  * address-of `&x`                                                                    -> `x`
"""
from __future__ import annotations
import ast
import os
import re
from dataclasses import dataclass, field
from typing import Dict, List, Optional, Tuple

from .model import AnalysisError, Program

C_TYPES = r'(?:float_t|int_t|int|double|float|char|long|bint|size_t|Py_ssize_t|unsigned\s+int)'
CAST_RE = re.compile(r'<\s*' + C_TYPES + r'\s*(?:\[[^\]]*\]|\*)?\s*>\s*')
DECL_RE = re.compile(r'^\s*(' + C_TYPES + r')\s*((?:\[[^\]]*\])|\*)?\s*(.+)$')


@dataclass
class PyxFunc:
    name: str
    node: ast.FunctionDef
    param_types: Dict[str, str] = field(default_factory=dict)
    local_types: Dict[str, str] = field(default_factory=dict)
    kind: str = 'cpdef'
    lineno: int = 0


@dataclass
class PyxModule:
    file: str
    tree: ast.Module
    funcs: Dict[str, PyxFunc]
    lowered: str
    line_map: Dict[int, int]      # lowered line -> original line


def _split_params(s: str) -> List[str]:
    out, cur, depth = [], '', 0
    for ch in s:
        if ch in '([':
            depth += 1
        elif ch in ')]':
            depth -= 1
        if ch == ',' and depth == 0:
            out.append(cur.strip())
            cur = ''
        else:
            cur += ch
    if cur.strip():
        out.append(cur.strip())
    return out


def _param(p: str) -> Tuple[str, str, Optional[str]]:
    """'float_t [:, :] noise=None' -> ('noise', 'float_t [:, :]', 'None')"""
    default = None
    if '=' in p:
        p, default = p.split('=', 1)
        default = default.strip()
    p = p.strip()
    m = re.match(r'^(.*?)(\w+)$', p)
    if not m:
        raise AnalysisError(f'pyx: cannot parse parameter `{p}`')
    return m.group(2), m.group(1).strip(), default


def lower(src: str, fname: str) -> PyxModule:
    lines = src.split('\n')
    out: List[str] = []
    line_map: Dict[int, int] = {}
    funcs_meta: Dict[str, Tuple[Dict[str, str], str, int]] = {}
    local_types: Dict[str, Dict[str, str]] = {}
    cur_func = None
    i = 0
    in_cdef_block = False
    cdef_indent = 0

    def emit(text, orig):
        out.append(text)
        line_map[len(out)] = orig

    while i < len(lines):
        raw = lines[i]
        line = raw.rstrip()
        stripped = line.strip()
        orig = i + 1
        indent = len(line) - len(line.lstrip())
        if in_cdef_block:
            if stripped == '' or stripped.startswith('#'):
                i += 1
                continue
            if indent > cdef_indent:
                _lower_decl(stripped, indent - 4 if indent >= 4 else indent, emit, orig, local_types.setdefault(cur_func or '', {}),
                            cdef_indent)
                i += 1
                continue
            in_cdef_block = False
        if stripped.startswith(('cimport ', 'from ')) and 'cimport' in stripped:
            i += 1
            continue
        if stripped.startswith('ctypedef ') or stripped.startswith('@cython') or stripped == 'cnp.import_array()':
            i += 1
            continue
        if stripped == 'import cython':
            i += 1
            continue
        m = re.match(r'^(\s*)(cpdef|cdef)\s+(.*)$', line)
        if m and '(' in m.group(3) and not stripped.startswith('cdef:') and re.search(r'\w+\s*\(', m.group(3)) \
                and (stripped.endswith(':') or not stripped.endswith(')') or True) and _looks_like_funcdef(lines, i):
            # function header, possibly multi-line
            hdr = line
            j = i
            while not re.search(r'\)\s*:\s*$', hdr.split('#')[0].rstrip()):
                j += 1
                if j >= len(lines):
                    raise AnalysisError(f'pyx: unterminated function header at line {orig}')
                hdr += ' ' + lines[j].strip()
            mm = re.match(r'^(\s*)(cpdef|cdef)\s+(.*?)(\w+)\s*\((.*)\)\s*:\s*$', hdr.split('#')[0].rstrip())
            if not mm:
                raise AnalysisError(f'pyx: cannot parse function header at line {orig}: {hdr[:80]}')
            ind, kind, rettype, name, params = mm.groups()
            ptypes = {}
            plist = []
            for p in _split_params(params):
                pn, pt, pd = _param(p)
                ptypes[pn] = pt
                plist.append(pn if pd is None else f'{pn}={pd}')
            funcs_meta[name] = (ptypes, kind, orig)
            cur_func = name
            emit(f'{ind}def {name}({", ".join(plist)}):', orig)
            i = j + 1
            continue
        if stripped == 'cdef:':
            in_cdef_block = True
            cdef_indent = indent
            i += 1
            continue
        if stripped.startswith('cdef '):
            _lower_decl(stripped[5:].strip(), indent, emit, orig, local_types.setdefault(cur_func or '', {}), indent, same_indent=True)
            i += 1
            continue
        # ordinary statement: strip casts and address-of
        emit(_lower_expr(line), orig)
        i += 1
    lowered = '\n'.join(out) + '\n'
    try:
        tree = ast.parse(lowered, filename=fname + ' (lowered)')
    except SyntaxError as e:
        raise AnalysisError(f'pyx: lowered source of {fname} does not parse (construct outside the supported subset) at lowered '
                            f'line {e.lineno}: {e.text}')
    funcs: Dict[str, PyxFunc] = {}
    for n in tree.body:
        if isinstance(n, ast.FunctionDef):
            pt, kind, ln = funcs_meta.get(n.name, ({}, 'def', n.lineno))
            funcs[n.name] = PyxFunc(n.name, n, pt, local_types.get(n.name, {}), kind, ln)
    # remap line numbers to the original file
    for n in ast.walk(tree):
        if hasattr(n, 'lineno'):
            n.lineno = line_map.get(n.lineno, n.lineno)
        if hasattr(n, 'end_lineno') and n.end_lineno is not None:
            n.end_lineno = line_map.get(n.end_lineno, n.end_lineno)
    return PyxModule(fname, tree, funcs, lowered, line_map)


def _looks_like_funcdef(lines, i) -> bool:
    s = lines[i].strip()
    # 'cdef float_t sim' is a declaration; a function header has '(' directly after an identifier and ends with ':' (maybe later)
    if re.match(r'^(cpdef|cdef)\s+.*\w+\s*\(', s) is None:
        return False
    hdr = s
    j = i
    while j < len(lines) and not re.search(r'\)\s*:\s*$', hdr.split('#')[0].rstrip()):
        j += 1
        if j >= len(lines) or j > i + 12:
            return False
        hdr += ' ' + lines[j].strip()
    return True


def _lower_expr(line: str) -> str:
    code, sep, comment = line.partition('#')
    code = CAST_RE.sub('', code)
    code = re.sub(r'&\s*([A-Za-z_])', r'\1', code)
    return code + sep + comment


def _lower_decl(decl: str, indent: int, emit, orig: int, types: Dict[str, str], block_indent: int, same_indent=False):
    decl = decl.split('#')[0].strip()
    if not decl:
        return
    m = DECL_RE.match(decl)
    if not m:
        raise AnalysisError(f'pyx: unsupported declaration at line {orig}: `{decl}`')
    base, suffix, rest = m.groups()
    ctype = (base + ' ' + (suffix or '')).strip()
    ind = ' ' * (block_indent if not same_indent else indent)
    for part in _split_params(rest):
        part = part.strip()
        ptr = ''
        while part.startswith('*'):
            ptr += '*'
            part = part[1:].strip()
        if '=' in part:
            name, val = part.split('=', 1)
            name = name.strip()
            types[name] = ctype + ptr
            emit(f'{ind}{name} = {_lower_expr(val.strip())}', orig)
        else:
            if not re.match(r'^\w+$', part):
                raise AnalysisError(f'pyx: unsupported declarator at line {orig}: `{part}`')
            types[part] = ctype + ptr


def load_pyx(prog: Program) -> Dict[str, PyxModule]:
    out = {}
    for f in prog.pyx_files:
        with open(f) as fh:
            src = fh.read()
        rel = os.path.relpath(f, prog.root)
        out[rel] = lower(src, rel)
    if not out:
        raise AnalysisError('no .pyx file found under src/rsatoolbox (cengine/similarity.pyx expected)')
    return out
