import numpy as np, warnings
warnings.simplefilter('ignore')
import rsatoolbox as rsa
from rsatoolbox.data import Dataset
rng = np.random.default_rng(0)

def tryit(name, f):
    try:
        r = f()
        print(name, '->', r)
    except Exception as e:
        print(name, 'RAISED', type(e).__name__, str(e)[:100])

# C01: remove_mean dropped in list
m = rng.normal(size=(12,5)); cond = np.repeat(np.arange(4),3)
ds = Dataset(m, obs_descriptors={'c':cond})
a = rsa.rdm.calc_rdm(ds, 'euclidean','c', remove_mean=True).dissimilarities
b = rsa.rdm.calc_rdm([ds], 'euclidean','c', remove_mean=True).dissimilarities
print('C01 list remove_mean same?', np.allclose(a,b))
# C02: poisson_cv last fold only
mp = rng.poisson(5,size=(12,5)).astype(float); fold=np.tile(np.arange(3),4)
dsp = Dataset(mp, obs_descriptors={'c':cond,'f':fold})
r = rsa.rdm.calc_rdm(dsp,'poisson_cv','c',cv_descriptor='f').dissimilarities
# reference
def ref():
    lam = lambda x:(x+1*0.1)/(1.1)
    folds=np.unique(fold); out=[]
    for i in range(4):
        for j in range(i+1,4):
            acc=[]
            for mfold in folds:
                for nfold in folds:
                    if mfold==nfold: continue
                    xam=lam(mp[(cond==i)&(fold==mfold)].mean(0)); xbm=lam(mp[(cond==j)&(fold==mfold)].mean(0))
                    xan=lam(mp[(cond==i)&(fold==nfold)].mean(0)); xbn=lam(mp[(cond==j)&(fold==nfold)].mean(0))
                    acc.append(((xam-xbm)*(np.log(xan)-np.log(xbn))).sum()/5)
            out.append(np.mean(acc))
    return np.array(out)
print('C02 poisson_cv matches def?', np.allclose(r, ref()), r[0][:3], ref()[:3])
# C05 sets_of_k_rdm
rd = rsa.rdm.RDMs(rng.random((8,10)))
from rsatoolbox.inference.crossvalsets import sets_of_k_rdm
tryit('C05 sets_of_k_rdm', lambda: len(sets_of_k_rdm(rd, k=2)[0]))
# C11 TemporalDataset.sort_by stability + time_as_observations single channel
from rsatoolbox.data import TemporalDataset
td = TemporalDataset(rng.normal(size=(40,1,3)), obs_descriptors={'c':np.tile([1,0],20),'i':np.arange(40)})
tryit('C11 time_as_observations 1 channel', lambda: td.split_time('time')[0].time_as_observations('time').measurements.shape)
td2 = TemporalDataset(rng.normal(size=(40,2,3)), obs_descriptors={'c':np.tile([1,0],20),'i':np.arange(40)})
td2.sort_by('c'); ii=np.array(td2.obs_descriptors['i']); print('C11 temporal sort stable?', np.all(np.diff(ii[:20])>0) and np.all(np.diff(ii[20:])>0))
# C12 sqrt_transform mutates
r0 = rsa.rdm.RDMs(-np.ones((1,3))); rsa.rdm.sqrt_transform(r0); print('C12 sqrt mutates input?', r0.dissimilarities)
# C13 misaligned nans
v1=np.array([[1.,np.nan,3.]]); v2=np.array([[np.nan,2.,3.]])
tryit('C13 compare misaligned', lambda: rsa.rdm.compare(rsa.rdm.RDMs(v1), rsa.rdm.RDMs(v2),'cosine'))
# C14 dof
mm = rng.normal(size=(12,4)); d14=Dataset(mm, obs_descriptors={'c':np.repeat(np.arange(3),4)})
c1=rsa.data.noise.cov_from_measurements(d14,'c',method='full'); c2=rsa.data.noise.cov_from_unbalanced(d14,'c',method='full')
print('C14 meas vs unbalanced equal (3 cond x 4 rep)?', np.allclose(c1,c2), (c1/c2)[0,0])
tryit('C14 list+dof', lambda: len(rsa.data.noise.cov_from_residuals([mm,mm], dof=[3,3], method='full')))
# C16 eval_fixed reload variances
import tempfile, os
models=[rsa.model.ModelFixed('m', rng.random(3))]
data = rsa.rdm.RDMs(rng.random((6,3)))
res = rsa.inference.eval_fixed(models, data)
p = tempfile.mktemp(suffix='.hdf5'); res.save(p); res2 = rsa.inference.load_results(p)
print('C16 model_var before/after', res.model_var, res2.model_var)
# C20 spm_filter
from rsatoolbox.io.spm import SpmGlm
g = SpmGlm.__new__(SpmGlm); g.nscans=np.array([5,5]); g.nruns=2
X0=np.linalg.qr(rng.normal(size=(5,2)))[0]; g.filter_matrices=[X0,X0]
Y=rng.normal(size=(10,3)); print('C20 spm_filter unchanged?', np.allclose(g.spm_filter(Y),Y))
# C08 interpolate predict vs predict_rdm default
mi = rsa.model.ModelInterpolate('i', rng.random((3,3)))
print('C08 interp default agree?', np.allclose(mi.predict(), mi.predict_rdm().dissimilarities[0]))
# C10 concat list descriptors
ra = rsa.rdm.RDMs(rng.random((1,3)), pattern_descriptors={'n':['a','b','c']}); rb = rsa.rdm.RDMs(rng.random((1,3)), pattern_descriptors={'n':['c','b','a']})
tryit('C10 concat list desc', lambda: rsa.rdm.concat(ra, rb).n_rdm)
tryit('RDMs.mean weights str', lambda: rsa.rdm.RDMs(rng.random((2,3)), rdm_descriptors={'w':[1,2]}).mean('w').descriptors)
