import numpy as np, warnings
warnings.simplefilter('ignore')
import rsatoolbox as rsa
rng = np.random.default_rng(1)
# dof with groups
data = rsa.rdm.RDMs(rng.random((6,10)), rdm_descriptors={'subj':[0,0,1,1,2,2]})
m = rsa.model.ModelFixed('m', rng.random(10))
import tqdm
r = rsa.inference.eval_bootstrap_rdm(m, data, N=5, rdm_descriptor='subj')
print('dof groups=3 n_rdm=6 ->', r.dof)
# fit_regress sigma_k
from rsatoolbox.model.fitter import fit_regress
basis = rsa.rdm.RDMs(rng.random((3,10)))
mw = rsa.model.ModelWeighted('w', basis)
d = rsa.rdm.RDMs(rng.random((4,10))*np.array([[1],[5],[0.2],[3]]))
A = rng.normal(size=(5,5)); sig = A@A.T+np.eye(5)
th = fit_regress(mw, d, method='cosine_cov', sigma_k=sig)
def score(t): return np.mean(rsa.rdm.compare(mw.predict_rdm(t), d, 'cosine_cov', sigma_k=sig))
best=score(th); better=0
for _ in range(3000):
    t = th + rng.normal(size=3)*0.05
    if score(t) > best+1e-9: better+=1
print('fit_regress cosine_cov sigma_k: competitors beating fit:', better, 'score', best)
# concat reorders args
ra = rsa.rdm.RDMs(rng.random((1,3)), pattern_descriptors={'n':np.array(['a','b','c'])}); rb = rsa.rdm.RDMs(rng.random((1,3)), pattern_descriptors={'n':np.array(['c','b','a'])})
before = rb.dissimilarities.copy(); rsa.rdm.concat(ra, rb); print('concat mutates arg?', not np.allclose(before, rb.dissimilarities), rb.pattern_descriptors['n'])
# subset shares dict
full = rsa.rdm.RDMs(rng.random((3,6)), pattern_descriptors={'n':['d','c','b','a']})
sub = full.subset('index',[0,1]); sub.sort_by(n='alpha'); print('parent relabelled after child sort?', full.pattern_descriptors['n'])
# eval_bootstrap_rdm noise ceil var
r = rsa.inference.eval_bootstrap_rdm(m, data, N=20); print('bootstrap_rdm variances shape', r.variances.shape, 'nc_var == model_var?', np.allclose(r.noise_ceil_var[:,0], r.model_var))
# RDMs.mean with weights str
from rsatoolbox.rdm.combine import _mean
# hdf5 tuple drop
import tempfile
rr = rsa.rdm.RDMs(rng.random((1,3)), descriptors={'t': (1,2,3), 's':'x'})
p=tempfile.mktemp(suffix='.hdf5'); rr.save(p); print('tuple descriptor after reload:', rsa.rdm.load_rdm(p).descriptors)
