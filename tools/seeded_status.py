"""Re-run the static checks against every stored seeded change (static part only; the dynamic confirmation was done once by
tools/verify_seed.py and is recorded in meta.json).  Each patch is applied in its own scratch worktree outside /repo and /verif.

usage: seeded_status.py [-j N] [--all-props] [ids...]     (default: the patch's own property only)
"""
import json, os, re, shutil, subprocess, sys, tempfile
from concurrent.futures import ThreadPoolExecutor
VERIF = os.path.dirname(os.path.dirname(os.path.abspath(__file__)))
PY = '/venv/bin/python'


def sh(cmd, cwd=None):
    p = subprocess.run(cmd, shell=True, cwd=cwd, capture_output=True, text=True)
    return p.returncode, p.stdout + p.stderr


def one(sid, all_props):
    d = os.path.join(VERIF, 'seeded', sid)
    meta = json.load(open(os.path.join(d, 'meta.json')))
    wt = tempfile.mkdtemp(prefix=f'ss-{sid}-')
    os.rmdir(wt)
    rc, out = sh(f'git -C /repo worktree add -q {wt} HEAD')
    assert rc == 0, out
    try:
        rc, out = sh(f'git apply {d}/patch.diff', cwd=wt)
        if rc != 0:
            return sid, {'error': 'patch does not apply: ' + out[:200]}
        props = ['C%02d' % i for i in range(1, 21)] if all_props else [meta['property']]
        fired = {}
        for p in props:
            rc, out = sh(f'{PY} -m sa.check {p} --root {wt} --evidence-dir {wt}/_ev', cwd=VERIF)
            if rc == 1:
                fired[p] = sorted({f'{r} @ {s}' for r, s in re.findall(r'rule=(\S+) site=(\S+)', out)})
            elif rc == 2:
                fired[p] = ['ANALYSIS-ERROR: ' + out.strip().splitlines()[-1][:200]]
        return sid, fired
    finally:
        sh(f'git -C /repo worktree remove --force {wt}')
        shutil.rmtree(wt, ignore_errors=True)


def main():
    args = sys.argv[1:]
    jobs = 8
    if '-j' in args:
        i = args.index('-j'); jobs = int(args[i + 1]); del args[i:i + 2]
    all_props = '--all-props' in args
    update = '--update' in args
    ids = [a for a in args if not a.startswith('-')] or sorted(os.listdir(os.path.join(VERIF, 'seeded')))
    ids = [i for i in ids if os.path.isdir(os.path.join(VERIF, 'seeded', i))]
    with ThreadPoolExecutor(jobs) as ex:
        res = list(ex.map(lambda s: one(s, all_props), ids))
    caught = 0
    for sid, fired in res:
        c = bool(fired) and 'error' not in fired
        caught += c
        print(f'{sid}: {"CAUGHT" if c else "missed"} {json.dumps(fired)}')
        if update and 'error' not in fired:
            mp = os.path.join(VERIF, 'seeded', sid, 'meta.json')
            meta = json.load(open(mp))
            if all_props or fired or not meta.get('checks_fired'):
                meta['checks_fired'] = fired if all_props else {**{k: v for k, v in meta.get('checks_fired', {}).items() if k != meta['property']}, **fired}
                meta['caught'] = bool(meta['checks_fired'])
                meta['caught_by_own_property'] = meta['property'] in meta['checks_fired']
                json.dump(meta, open(mp, 'w'), indent=1)
    print(f'{caught}/{len(res)} caught')


if __name__ == '__main__':
    main()
