"""Development aid (not a registered check): generate single-site syntactic mutants of the package with a few generic operators,
run the static checks on each (scratch copy outside /repo and /verif), and list the mutants NO check reports.  The survivors are
candidates for missing rules (or for equivalent mutants) and are triaged by hand; the dynamic test-suite is not used here.

usage: automutate.py [--files a.py b.py] [--ops ARGDROP,CMPB,...] [--props C01,C02] [-j 14] [--limit N] [--out file.json]
"""
import ast, copy, json, os, random, shutil, sys, tempfile
from concurrent.futures import ProcessPoolExecutor
VERIF = os.path.dirname(os.path.dirname(os.path.abspath(__file__)))
sys.path.insert(0, VERIF)
SRC = '/repo/src/rsatoolbox'


class Site:
    def __init__(self, file, op, lineno, desc, new_src):
        self.file, self.op, self.lineno, self.desc, self.new_src = file, op, lineno, desc, new_src


def _unparse_replace(src, tree, node, new_node):
    """textual replacement of one node by unparsed new node (keeps the rest of the file byte-identical)"""
    lines = src.split('\n')
    if node.lineno != node.end_lineno:
        seg = '\n'.join(lines[node.lineno - 1:node.end_lineno])
        start = node.col_offset
        end = len('\n'.join(lines[node.lineno - 1:node.end_lineno - 1])) + 1 + node.end_col_offset if node.end_lineno > node.lineno else node.end_col_offset
        new_seg = seg[:start] + ast.unparse(new_node) + seg[end:]
        return '\n'.join(lines[:node.lineno - 1] + new_seg.split('\n') + lines[node.end_lineno:])
    ln = lines[node.lineno - 1]
    # col offsets are in utf8 bytes; files are ascii in practice
    lines[node.lineno - 1] = ln[:node.col_offset] + ast.unparse(new_node) + ln[node.end_col_offset:]
    return '\n'.join(lines)


def sites_of(file, src, ops):
    tree = ast.parse(src)
    out = []
    funcs = [n for n in ast.walk(tree) if isinstance(n, (ast.FunctionDef,))]
    def in_func(n):
        return any(f.lineno <= n.lineno <= f.end_lineno for f in funcs)
    for n in ast.walk(tree):
        if not hasattr(n, 'lineno') or not in_func(n):
            continue
        if 'ARGDROP' in ops and isinstance(n, ast.Call) and n.keywords:
            for i, k in enumerate(n.keywords):
                if k.arg is None or isinstance(k.value, ast.Constant):
                    continue
                if not (isinstance(k.value, ast.Name) and k.value.id == k.arg):
                    continue            # only "p=p" forwards
                m = copy.deepcopy(n)
                del m.keywords[i]
                out.append(Site(file, 'ARGDROP', n.lineno, f'drop {k.arg}= in {ast.unparse(n.func)}(...)', _unparse_replace(src, tree, n, m)))
        if 'ARGSWAP' in ops and isinstance(n, ast.Call) and len(n.args) >= 2:
            for i in range(len(n.args) - 1):
                a, b = n.args[i], n.args[i + 1]
                if isinstance(a, ast.Name) and isinstance(b, ast.Name) and a.id != b.id:
                    m = copy.deepcopy(n)
                    m.args[i], m.args[i + 1] = m.args[i + 1], m.args[i]
                    out.append(Site(file, 'ARGSWAP', n.lineno, f'swap {a.id},{b.id} in {ast.unparse(n.func)}(...)', _unparse_replace(src, tree, n, m)))
        if 'CMPB' in ops and isinstance(n, ast.Compare) and len(n.ops) == 1 and isinstance(n.ops[0], (ast.Gt, ast.GtE, ast.Lt, ast.LtE)):
            m = copy.deepcopy(n)
            m.ops[0] = {ast.Gt: ast.GtE, ast.GtE: ast.Gt, ast.Lt: ast.LtE, ast.LtE: ast.Lt}[type(n.ops[0])]()
            out.append(Site(file, 'CMPB', n.lineno, f'{ast.unparse(n)} -> {ast.unparse(m)}', _unparse_replace(src, tree, n, m)))
        if 'AXIS' in ops and isinstance(n, ast.Call):
            for i, k in enumerate(n.keywords):
                if k.arg == 'axis' and isinstance(k.value, ast.Constant) and k.value.value in (0, 1):
                    m = copy.deepcopy(n)
                    m.keywords[i].value = ast.Constant(value=1 - k.value.value)
                    out.append(Site(file, 'AXIS', n.lineno, f'axis {k.value.value}->{1 - k.value.value} in {ast.unparse(n)[:50]}', _unparse_replace(src, tree, n, m)))
        if 'COPYDROP' in ops and isinstance(n, ast.Call):
            nm = n.func.attr if isinstance(n.func, ast.Attribute) else getattr(n.func, 'id', '')
            if nm == 'copy' and isinstance(n.func, ast.Attribute) and not n.args:
                out.append(Site(file, 'COPYDROP', n.lineno, f'{ast.unparse(n)[:50]} -> no copy', _unparse_replace(src, tree, n, n.func.value)))
            elif nm in ('deepcopy',) and len(n.args) == 1:
                out.append(Site(file, 'COPYDROP', n.lineno, f'{ast.unparse(n)[:50]} -> no copy', _unparse_replace(src, tree, n, n.args[0])))
            elif nm == 'dict' and len(n.args) == 1 and not n.keywords and isinstance(n.func, ast.Name):
                out.append(Site(file, 'COPYDROP', n.lineno, f'{ast.unparse(n)[:50]} -> no copy', _unparse_replace(src, tree, n, n.args[0])))
        if 'STABLE' in ops and isinstance(n, ast.Call):
            for i, k in enumerate(n.keywords):
                if k.arg == 'kind' and isinstance(k.value, ast.Constant) and k.value.value in ('stable', 'mergesort'):
                    m = copy.deepcopy(n)
                    del m.keywords[i]
                    out.append(Site(file, 'STABLE', n.lineno, f'{ast.unparse(n)[:50]} -> unstable', _unparse_replace(src, tree, n, m)))
        if 'NANFUNC' in ops and isinstance(n, ast.Call) and isinstance(n.func, ast.Attribute) and n.func.attr in ('nanmean', 'nansum', 'nanmax', 'nanmin'):
            m = copy.deepcopy(n)
            m.func.attr = n.func.attr[3:]
            out.append(Site(file, 'NANFUNC', n.lineno, f'{n.func.attr} -> {m.func.attr} in {ast.unparse(n)[:40]}', _unparse_replace(src, tree, n, m)))
        if 'OFFBY1' in ops and isinstance(n, ast.BinOp) and isinstance(n.op, (ast.Add, ast.Sub)) and isinstance(n.right, ast.Constant) \
                and n.right.value == 1 and not isinstance(n.left, ast.Constant):
            out.append(Site(file, 'OFFBY1', n.lineno, f'{ast.unparse(n)[:40]} -> {ast.unparse(n.left)[:30]}', _unparse_replace(src, tree, n, n.left)))
        if 'INPLACE' in ops and isinstance(n, ast.Assign) and isinstance(n.targets[0], ast.Name) and isinstance(n.value, ast.BinOp) \
                and isinstance(n.value.op, (ast.Sub, ast.Div, ast.Mult, ast.Add)) and isinstance(n.value.left, ast.Name) \
                and n.value.left.id == n.targets[0].id:
            m = ast.AugAssign(target=ast.Name(id=n.targets[0].id, ctx=ast.Store()), op=n.value.op, value=n.value.right)
            out.append(Site(file, 'INPLACE', n.lineno, f'{ast.unparse(n)[:50]} -> in place', _unparse_replace(src, tree, n, m)))
    # keep only mutants that still compile and actually differ
    good = []
    for s in out:
        if s.new_src == src:
            continue
        try:
            compile(s.new_src, file, 'exec')
        except SyntaxError:
            continue
        good.append(s)
    return good


def run_one(args):
    rel, op, lineno, desc, new_src, props = args
    from sa.check import run_property
    from sa.model import AnalysisError
    d = tempfile.mkdtemp(prefix='am-')
    try:
        dst = os.path.join(d, 'src', 'rsatoolbox')
        shutil.copytree(SRC, dst, ignore=shutil.ignore_patterns('__pycache__', '*.so', '*.pyc', 'vis'))
        with open(os.path.join(d, 'src', 'rsatoolbox', rel), 'w') as fh:
            fh.write(new_src)
        fired = {}
        for p in props:
            try:
                obs, known, new, wall = run_property(p, d, 'quick', 0, evidence_dir=os.path.join(d, 'ev'))
                if new:
                    fired[p] = sorted({o.rule for o in new})
            except AnalysisError as e:
                fired[p] = ['ANALYSIS-ERROR']
            except Exception as e:
                fired[p] = ['ERROR ' + type(e).__name__]
        return dict(file=rel, op=op, line=lineno, desc=desc, fired=fired)
    finally:
        shutil.rmtree(d, ignore_errors=True)


def main():
    a = sys.argv[1:]
    def opt(name, default=None):
        if name in a:
            return a[a.index(name) + 1]
        return default
    ops = set(opt('--ops', 'ARGDROP,ARGSWAP,CMPB,AXIS,COPYDROP,STABLE,NANFUNC,OFFBY1,INPLACE').split(','))
    props = opt('--props')
    props = props.split(',') if props else ['C%02d' % i for i in range(1, 21)]
    jobs = int(opt('-j', '14'))
    limit = int(opt('--limit', '0'))
    files = []
    if '--files' in a:
        i = a.index('--files') + 1
        while i < len(a) and not a[i].startswith('-'):
            files.append(a[i]); i += 1
    else:
        for dp, dn, fn in os.walk(SRC):
            if '/vis' in dp:
                continue
            for f in fn:
                if f.endswith('.py') and f not in ('petnames.py', '__init__.py'):
                    files.append(os.path.relpath(os.path.join(dp, f), SRC))
    tasks = []
    from sa.rules.sweeps import PROPERTY_SCOPE
    auto = '--props' not in a
    for rel in sorted(files):
        src = open(os.path.join(SRC, rel)).read()
        mod = rel[:-3].replace('/', '.') + '.'
        myprops = props
        if auto:
            myprops = sorted({p for p, pre in PROPERTY_SCOPE.items() if any(mod.startswith(x) or x.startswith(mod) for x in pre)} | {'C12'})
        for s in sites_of(rel, src, ops):
            tasks.append((rel, s.op, s.lineno, s.desc, s.new_src, myprops))
    random.Random(1).shuffle(tasks)
    if limit:
        tasks = tasks[:limit]
    print(f'{len(tasks)} mutants', flush=True)
    with ProcessPoolExecutor(jobs) as ex:
        res = list(ex.map(run_one, tasks, chunksize=2))
    caught = [r for r in res if r['fired']]
    print(f'caught {len(caught)} / {len(res)}')
    byop = {}
    for r in res:
        k = byop.setdefault(r['op'], [0, 0])
        k[1] += 1
        k[0] += bool(r['fired'])
    for op, (c, n) in sorted(byop.items()):
        print(f'  {op}: {c}/{n}')
    out = opt('--out', '/tmp/automutate.json')
    json.dump(res, open(out, 'w'), indent=1)
    for r in sorted(res, key=lambda r: (r['file'], r['line'])):
        if not r['fired']:
            print(f"SURVIVOR {r['op']:8s} {r['file']}:{r['line']}  {r['desc']}")


if __name__ == '__main__':
    main()
