"""Verify one sub-agent change and record it under /verif/seeded/<id>/.

usage: verify_seed.py <prop> <A|B> [--skip-suite]
 1. fresh scratch worktree of /repo HEAD under /tmp (copy the compiled extension), `git apply` the diff
 2. run the demo on the clean tree (must exit 0) and on the changed tree (must exit != 0)
 3. run the pinned test-suite on the changed tree (340 passes, no new failures)
 4. run all 20 quick checks statically against the changed tree (--root) and record which fire
 5. write /verif/seeded/<prop>-<X>/{patch.diff, demo.py, meta.json}; remove the worktree
"""
import json, os, re, shutil, subprocess, sys, tempfile
VERIF = os.path.dirname(os.path.dirname(os.path.abspath(__file__)))
PY = '/venv/bin/python'


def sh(cmd, cwd=None, env=None, timeout=3000):
    p = subprocess.run(cmd, shell=True, cwd=cwd, env=env, capture_output=True, text=True, timeout=timeout)
    return p.returncode, p.stdout + p.stderr


def main():
    prop, x = sys.argv[1], sys.argv[2]
    skip_suite = '--skip-suite' in sys.argv
    rnd = sys.argv[sys.argv.index('--round') + 1] if '--round' in sys.argv else '1'
    wtname = f'/tmp/wt-{prop}' if rnd == '1' else f'/tmp/w{rnd}-{prop}'
    src = f'{wtname}/_out'
    sid = f'{prop}-{x}' if rnd == '1' else f'{prop}-{rnd}{x}'
    diff = os.path.join(src, f'{x}.diff')
    demo = os.path.join(src, f'demo_{x}.py')
    assert os.path.exists(diff) and os.path.exists(demo), (diff, demo)
    wt = tempfile.mkdtemp(prefix=f'vs-{prop}-{rnd}{x}-')
    os.rmdir(wt)
    BASE = sys.argv[sys.argv.index('--base') + 1] if '--base' in sys.argv else 'HEAD'
    rc, out = sh(f'git -C /repo worktree add -q {wt} {BASE}')
    assert rc == 0, out
    meta = {'id': sid, 'round': int(rnd), 'property': prop, 'source': 'independent sub-agent given only the property text and a scratch worktree'}
    try:
        sh(f'cp /repo/src/rsatoolbox/cengine/*.so /repo/src/rsatoolbox/cengine/similarity.c {wt}/src/rsatoolbox/cengine/')
        env = dict(os.environ, PYTHONPATH=f'{wt}/src')
        # the demo and every helper module the agent left next to it (shared oracles), with the worktree path rewritten
        ddir = os.path.join(wt, '_out')
        os.makedirs(ddir, exist_ok=True)
        for fn in os.listdir(src):
            if fn.endswith('.py'):
                open(os.path.join(ddir, fn), 'w').write(open(os.path.join(src, fn)).read().replace(wtname, wt))
        demo_local = os.path.join(ddir, f'demo_{x}.py')
        rc0, out0 = sh(f'{PY} {demo_local}', cwd=wt, env=env, timeout=1800)
        meta['demo_clean_exit'] = rc0
        rc, out = sh(f'git apply {diff}', cwd=wt)
        if rc != 0:
            rc, out = sh(f'git apply --3way {diff}', cwd=wt)
        assert rc == 0, 'patch does not apply: ' + out
        _, patch_text = sh('git add -N src >/dev/null 2>&1; git diff HEAD -- src', cwd=wt)
        rc1, out1 = sh(f'{PY} {demo_local}', cwd=wt, env=env, timeout=1800)
        meta['demo_changed_exit'] = rc1
        meta['demo_changed_tail'] = out1.strip().splitlines()[-6:]
        if not skip_suite:
            rc, out = sh(f'{PY} -m pytest -q -p no:cacheprovider -n 6 --timeout=900 --continue-on-collection-errors tests 2>&1 | tail -3', cwd=wt, env=env)
            meta['suite_tail'] = out.strip().splitlines()[-1:]
            m = re.search(r'(\d+) passed', out)
            meta['suite_passed'] = int(m.group(1)) if m else None
        fired = {}
        for i in range(1, 21):
            p = 'C%02d' % i
            rc, out = sh(f'{PY} -m sa.check {p} --root {wt} --evidence-dir {wt}/_ev', cwd=VERIF)
            if rc == 1:
                rules = sorted(set(re.findall(r'rule=(\S+) site=(\S+)', out)))
                fired[p] = [f'{r} @ {s}' for r, s in rules]
            elif rc == 2:
                fired[p] = ['ANALYSIS-ERROR: ' + out.strip().splitlines()[-1][:200]]
        meta['checks_fired'] = fired
        meta['caught'] = bool(fired)
        meta['caught_by_own_property'] = prop in fired
        ok = (rc0 == 0 and rc1 != 0 and (skip_suite or meta.get('suite_passed') == 340))
        meta['confirmed'] = ok
        notes = os.path.join(src, 'notes.md')
        dst = os.path.join(VERIF, 'seeded', sid)
        os.makedirs(dst, exist_ok=True)
        open(os.path.join(dst, 'patch.diff'), 'w').write(patch_text if patch_text.endswith('\n') else patch_text + '\n')
        open(os.path.join(dst, 'demo.py'), 'w').write(open(demo).read().replace(wtname, '<worktree>'))
        for fn in os.listdir(src):
            if fn.endswith('.py') and not re.match(r'(demo|equiv)_[A-Z]\.py$', fn):
                open(os.path.join(dst, fn), 'w').write(open(os.path.join(src, fn)).read().replace(wtname, '<worktree>'))
        if os.path.exists(notes):
            shutil.copy(notes, os.path.join(dst, 'agent_notes.md'))
        meta['what_i_ran'] = [
            'git worktree add <scratch> HEAD; git apply patch.diff',
            'PYTHONPATH=<scratch>/src python demo.py   (clean: exit 0, changed: exit != 0)',
            'PYTHONPATH=<scratch>/src python -m pytest -q -n 6 tests   (340 passed, same 12 baseline failures)',
            'python -m sa.check Cnn --root <scratch>   for all 20 properties',
        ]
        json.dump(meta, open(os.path.join(dst, 'meta.json'), 'w'), indent=1)
        print(json.dumps({k: meta[k] for k in ('id', 'confirmed', 'demo_clean_exit', 'demo_changed_exit', 'suite_passed', 'caught', 'checks_fired') if k in meta}))
    finally:
        sh(f'git -C /repo worktree remove --force {wt}')
        shutil.rmtree(wt, ignore_errors=True)


if __name__ == '__main__':
    main()
