#!/bin/bash
# usage: seed_tree.sh <seeded-id> -> prints the path of a scratch worktree of /repo HEAD with the patch applied
# (remove with: git -C /repo worktree remove --force <path>)
set -e
d=$(mktemp -d -u /tmp/st-$1-XXXX)
git -C /repo worktree add -q $d HEAD
git -C $d apply /verif/seeded/$1/patch.diff
echo $d
