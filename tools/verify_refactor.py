"""Verify one behaviour-preserving refactoring produced by a sub-agent (round 3) and record it under /verif/seeded/<prop>-3<X>/.

 1. fresh scratch worktree of /repo HEAD; run the agent's equivalence script on the clean tree, apply the diff (3-way if needed),
    run it again: the two outputs must be identical
 2. the pinned test-suite must still have 340 passes
 3. all 20 quick checks are run statically on the refactored tree: any violation is a FALSE ALARM of that check
"""
import json, os, re, shutil, subprocess, sys, tempfile
VERIF = os.path.dirname(os.path.dirname(os.path.abspath(__file__)))
PY = '/venv/bin/python'


def sh(cmd, cwd=None, env=None, timeout=3000):
    p = subprocess.run(cmd, shell=True, cwd=cwd, env=env, capture_output=True, text=True, timeout=timeout)
    return p.returncode, p.stdout + p.stderr


def main():
    prop, x = sys.argv[1], sys.argv[2]
    skip_suite = '--skip-suite' in sys.argv
    rnd = sys.argv[sys.argv.index('--round') + 1] if '--round' in sys.argv else '3'
    wtname = f'/tmp/w{rnd}-{prop}'
    src = f'{wtname}/_out'
    diff = os.path.join(src, f'{x}.diff')
    eq = os.path.join(src, f'equiv_{x}.py')
    assert os.path.exists(diff), diff
    sid = f'{prop}-{rnd}{x}'
    wt = tempfile.mkdtemp(prefix=f'vr-{sid}-')
    os.rmdir(wt)
    BASE = sys.argv[sys.argv.index('--base') + 1] if '--base' in sys.argv else 'HEAD'
    rc, out = sh(f'git -C /repo worktree add -q {wt} {BASE}')
    assert rc == 0, out
    meta = {'id': sid, 'round': int(rnd), 'property': prop, 'kind': 'behaviour-preserving refactoring',
            'source': 'independent sub-agent given only the property text and a scratch worktree'}
    try:
        sh(f'cp /repo/src/rsatoolbox/cengine/*.so /repo/src/rsatoolbox/cengine/similarity.c {wt}/src/rsatoolbox/cengine/')
        env = dict(os.environ, PYTHONPATH=f'{wt}/src', PYTHONHASHSEED='0')
        before = after = None
        if os.path.exists(eq):
            eqdir = os.path.join(wt, '_out')
            os.makedirs(eqdir, exist_ok=True)
            for fn in os.listdir(src):
                if fn.endswith('.py'):
                    open(os.path.join(eqdir, fn), 'w').write(open(os.path.join(src, fn)).read().replace(wtname, wt))
            local = os.path.join(eqdir, f'equiv_{x}.py')
            rc0, before = sh(f'{PY} {local} 2>/dev/null', cwd=wt, env=env, timeout=1800)
            meta['equiv_rc_before'] = rc0
        rc, out = sh(f'git apply {diff}', cwd=wt)
        if rc != 0:
            rc, out = sh(f'git apply --3way {diff}', cwd=wt)
        assert rc == 0, 'patch does not apply: ' + out
        rc, out = sh('git add -N src >/dev/null 2>&1; git diff HEAD -- src', cwd=wt)
        patch_text = out
        if os.path.exists(eq):
            rc1, after = sh(f'{PY} {local} 2>/dev/null', cwd=wt, env=env, timeout=1800)
            meta['equiv_rc_after'] = rc1
            strip = lambda t: '\n'.join(l for l in (t or '').splitlines() if 'it/s' not in l and 'Warning' not in l and not l.startswith('  warnings.warn'))
            meta['equiv_identical'] = (strip(before) == strip(after)) and rc0 == rc1 and 'Traceback' not in (before or '')[-2000:]
            meta['equiv_lines'] = len((before or '').splitlines())
        if not skip_suite:
            rc, out = sh(f'{PY} -m pytest -q -p no:cacheprovider -n 6 --timeout=900 --continue-on-collection-errors tests 2>&1 | tail -3', cwd=wt, env=env)
            m = re.search(r'(\d+) passed', out)
            meta['suite_passed'] = int(m.group(1)) if m else None
        fired, undecided_delta = {}, {}
        for i in range(1, 21):
            p = 'C%02d' % i
            rc, out = sh(f'{PY} -m sa.check {p} --root {wt} --evidence-dir {wt}/_ev', cwd=VERIF)
            if rc == 1:
                fired[p] = sorted({f'{r} @ {s}' for r, s in re.findall(r'rule=(\S+) site=(\S+)', out)})
            elif rc == 2:
                fired[p] = ['ANALYSIS-ERROR: ' + out.strip().splitlines()[-1][:300]]
        meta['checks_fired'] = fired
        meta['false_alarm'] = bool(fired)
        meta['confirmed'] = bool(meta.get('equiv_identical', True)) and (skip_suite or meta.get('suite_passed') == 340)
        dst = os.path.join(VERIF, 'seeded', sid)
        os.makedirs(dst, exist_ok=True)
        open(os.path.join(dst, 'patch.diff'), 'w').write(patch_text if patch_text.endswith('\n') else patch_text + '\n')
        if os.path.exists(eq):
            shutil.copy(eq, os.path.join(dst, 'equiv.py'))
        for fn in os.listdir(src):          # helper modules the scripts import
            if fn.endswith('.py') and not re.match(r'(demo|equiv)_[A-Z]\.py$', fn):
                shutil.copy(os.path.join(src, fn), os.path.join(dst, fn))
        notes = os.path.join(src, 'notes.md')
        if os.path.exists(notes):
            shutil.copy(notes, os.path.join(dst, 'agent_notes.md'))
        meta['what_i_ran'] = ['git worktree add <scratch> HEAD', 'PYTHONPATH=<scratch>/src python equiv.py (before)', 'git apply patch.diff',
                              'python equiv.py (after): identical output', 'pytest -q -n 6 tests (340 passed)',
                              'python -m sa.check Cnn --root <scratch> for all 20 properties (expected: no violation)']
        json.dump(meta, open(os.path.join(dst, 'meta.json'), 'w'), indent=1)
        print(json.dumps({k: meta.get(k) for k in ('id', 'confirmed', 'equiv_identical', 'suite_passed', 'false_alarm', 'checks_fired')}))
    finally:
        sh(f'git -C /repo worktree remove --force {wt}')
        shutil.rmtree(wt, ignore_errors=True)


if __name__ == '__main__':
    main()
