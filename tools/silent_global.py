"""Global 'must stay silent' test: rewrite the whole package through ast.unparse (formatting and comments gone) with every
function-local variable renamed, then run all 20 quick checks on the rewritten scratch tree.  Any new violation is a false
alarm of a rule that depends on spelling.  (Development / thorough aid; scratch tree under /tmp, removed afterwards.)"""
import ast, os, shutil, sys, tempfile, hashlib
sys.path.insert(0, os.path.dirname(os.path.dirname(os.path.abspath(__file__))))


class Renamer(ast.NodeTransformer):
    def __init__(self):
        self.stack = []

    def _locals(self, fn):
        names = set()
        params = {a.arg for a in fn.args.posonlyargs + fn.args.args + fn.args.kwonlyargs}
        if fn.args.vararg:
            params.add(fn.args.vararg.arg)
        if fn.args.kwarg:
            params.add(fn.args.kwarg.arg)
        skip = set()

        def walk(n, top=True):
            for ch in ast.iter_child_nodes(n):
                if isinstance(ch, (ast.FunctionDef, ast.AsyncFunctionDef, ast.Lambda, ast.ClassDef)):
                    if isinstance(ch, (ast.FunctionDef, ast.ClassDef)):
                        skip.add(ch.name)
                    continue
                if isinstance(ch, (ast.Global, ast.Nonlocal)):
                    skip.update(ch.names)
                if isinstance(ch, ast.Name) and isinstance(ch.ctx, ast.Store):
                    names.add(ch.id)
                if isinstance(ch, (ast.Import, ast.ImportFrom)):
                    for a in ch.names:
                        skip.add((a.asname or a.name).split('.')[0])
                walk(ch, False)
        walk(fn)
        return {n for n in names if n not in params and n not in skip and not n.startswith('__')}

    def visit_FunctionDef(self, node):
        loc = self._locals(node)
        mapping = {n: 'v_' + hashlib.md5((node.name + n).encode()).hexdigest()[:6] for n in loc}
        # names that are parameters of this function shadow outer renames
        params = {a.arg for a in node.args.posonlyargs + node.args.args + node.args.kwonlyargs}
        outer = dict(self.stack[-1]) if self.stack else {}
        for p in params:
            outer.pop(p, None)
        outer.update(mapping)
        self.stack.append(outer)
        self.generic_visit(node)
        self.stack.pop()
        return node

    def visit_Name(self, node):
        if self.stack and node.id in self.stack[-1]:
            node.id = self.stack[-1][node.id]
        return node


def main():
    from sa.check import run_property, PROPS
    root = sys.argv[1] if len(sys.argv) > 1 else '/repo'
    d = tempfile.mkdtemp(prefix='verif-silent-')
    try:
        dst = os.path.join(d, 'src', 'rsatoolbox')
        shutil.copytree(os.path.join(root, 'src', 'rsatoolbox'), dst, ignore=shutil.ignore_patterns('__pycache__', '*.so', '*.c'))
        n = 0
        for dp, dn, fn in os.walk(dst):
            if os.sep + 'vis' in dp:
                continue
            for f in fn:
                if f.endswith('.py') and f != 'petnames.py':
                    p = os.path.join(dp, f)
                    t = ast.parse(open(p).read())
                    t = Renamer().visit(t)
                    ast.fix_missing_locations(t)
                    open(p, 'w').write(ast.unparse(t) + '\n')
                    n += 1
        print('rewrote', n, 'files under', d)
        bad = 0
        for prop in PROPS:
            try:
                obs, known, new, wall = run_property(prop, d, 'quick', 0, evidence_dir=os.path.join(d, 'ev'))
            except Exception as e:
                print(prop, 'ANALYSIS-ERROR', str(e)[:200])
                bad += 1
                continue
            und = obs.count('undecided')
            print(prop, 'new violations:', len(new), 'known:', len(known), 'undecided:', und)
            for o in new[:6]:
                print('    FALSE-ALARM?', o.line()[:200], '|', o.detail[:160])
            bad += len(new)
        return 1 if bad else 0
    finally:
        shutil.rmtree(d, ignore_errors=True)


if __name__ == '__main__':
    sys.exit(main())
