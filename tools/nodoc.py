"""print a python file with docstrings removed (reading aid, not a check)"""
import ast, sys
src = open(sys.argv[1]).read()
t = ast.parse(src)
lines = src.split('\n')
kill = set()
for n in ast.walk(t):
    if isinstance(n, (ast.FunctionDef, ast.ClassDef, ast.Module, ast.AsyncFunctionDef)):
        b = n.body
        if b and isinstance(b[0], ast.Expr) and isinstance(getattr(b[0], 'value', None), ast.Constant) and isinstance(b[0].value.value, str):
            for i in range(b[0].lineno, b[0].end_lineno + 1):
                kill.add(i)
for i, l in enumerate(lines, 1):
    if i in kill or not l.strip():
        continue
    print(f"{i}\t{l}")
