#!/bin/bash
# usage: rebase_seed.sh <seeded-id> : re-create seeded/<id>/patch.diff against the current /repo HEAD by a 3-way merge, run the demo
set -e
id=$1
d=$(mktemp -d -u /tmp/rb-$id-XXXX)
git -C /repo worktree add -q $d HEAD
cd $d
if git apply --3way /verif/seeded/$id/patch.diff 2>/tmp/rb.err; then
  git diff HEAD > /verif/seeded/$id/patch.diff.new
  cp /repo/src/rsatoolbox/cengine/*.so src/rsatoolbox/cengine/ 2>/dev/null || true
  if [ ! -f /verif/seeded/$id/demo.py ]; then mv /verif/seeded/$id/patch.diff.new /verif/seeded/$id/patch.diff; echo "$id: rebased (refactoring, no demo)";
  elif PYTHONPATH=$d/src /venv/bin/python /verif/seeded/$id/demo.py >/dev/null 2>&1; then echo "$id: demo PASSES with rebased patch (patch no longer breaks the property?)"; rm /verif/seeded/$id/patch.diff.new;
  else mv /verif/seeded/$id/patch.diff.new /verif/seeded/$id/patch.diff; echo "$id: rebased, demo still fails with it"; fi
else
  echo "$id: 3-way failed: $(head -2 /tmp/rb.err)"
fi
cd /verif
git -C /repo worktree remove --force $d
