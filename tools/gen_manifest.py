"""Regenerate /verif/MANIFEST.json from the property modules present in sa/props (run after adding a property)."""
import importlib, json, os, sys
VERIF = os.path.dirname(os.path.dirname(os.path.abspath(__file__)))
sys.path.insert(0, VERIF)
PY = '/venv/bin/python'
checks, na = [], []
for i in range(1, 21):
    pid = 'C%02d' % i
    path = os.path.join(VERIF, 'sa', 'props', pid.lower() + '.py')
    if not os.path.exists(path):
        na.append({'property_id': pid, 'reason': 'check not built yet in this round (planned, see DESIGN.md section 4)'})
        continue
    m = importlib.import_module('sa.props.' + pid.lower())
    if getattr(m, 'NOT_APPLICABLE', None):
        na.append({'property_id': pid, 'reason': m.NOT_APPLICABLE})
        continue
    checks.append({
        'property_id': pid,
        'quick_cmd': f'{PY} -m sa.check {pid} --tier quick',
        'thorough_cmd': f'{PY} -m sa.check {pid} --tier thorough',
        'evidence_file': f'/verif/evidence/{pid}.json',
        'replay_cmd_template': f'{PY} -m sa.check {pid} --replay {{path}}',
        'engine': 'sa',
        'level_claimed': {
            'category': 'other',
            'text': 'static necessary-condition analysis: ' + m.EXPLANATION,
            'design_ref': 'DESIGN.md section 4-' + pid,
        },
        'level_note': ('Decides the structural clauses named in the evidence only; a tree can pass this check and still '
                       'compute a wrong number. Trusted base: python ast, the callee-resolution and numpy view/copy/'
                       'mutator tables in /verif/sa, the role/contract tables in the property module. '
                       + '; '.join(getattr(m, 'ASSUMPTIONS', []))),
        'technique': getattr(m, 'TECHNIQUE', 'static analysis: interprocedural dependence/dataflow + AST structural rules'),
    })
import subprocess
try:
    log = subprocess.check_output(['git', '-C', '/repo', 'log', '--format=%h %s']).decode().splitlines()
    fix_commits = [l for l in log if l.split(' ', 1)[1].startswith('fix:')][::-1]
except Exception:
    fix_commits = []
man = {
    'version': 1,
    'setup_cmd': f'{PY} -m compileall -q sa && {PY} -m sa.selfcheck',
    'hooks': {
        'guard': 'RSATOOLBOX_VERIF',
        'enable': 'none: the checks read the source tree; no hooks or instrumentation were added to /repo '
                  '(source_commits lists the unguarded `fix:` repairs of genuine defects)',
        'baseline_off_cmd': 'cd /repo && /venv/bin/python -m pytest -ra -q -p no:cacheprovider --timeout=900 --continue-on-collection-errors',
        'source_commits': fix_commits,
        'add_only': True,
    },
    'engines': [{
        'name': 'sa', 'path': '/verif/sa', 'serves_properties': [c['property_id'] for c in checks],
        'kind_free_text': 'custom static analyser over python ast (program model, interprocedural dependence summaries, '
                          'alias/effect analysis, structural rule library, Cython lowering)'}],
    'checks': checks,
    'not_applicable': na,
    'notes': 'All verdicts are computed from /repo source on every run; nothing from rsatoolbox is imported or executed. '
             'exit 2 + ANALYSIS-ERROR = analysis could not be carried out (vanished anchor etc.).',
}
with open(os.path.join(VERIF, 'MANIFEST.json'), 'w') as fh:
    json.dump(man, fh, indent=1)
print('checks:', [c['property_id'] for c in checks], 'n/a:', [x['property_id'] for x in na])
